//go:build verif

package index

import (
	"context"
	"sync"

	"github.com/marekgalovic/anndb/math"
	"github.com/marekgalovic/anndb/verifrt"
)

// Harness for C13 (reduced): a small index is built sequentially, then 2..3
// goroutines each run one Insert / Remove / Search / Get+Len on overlapping
// ids. The symbolic executor explores every interleaving at lock
// acquisitions and atomic operations within the preemption bound; a panic or
// a state where every goroutine is blocked is a violation. Afterwards:
//   - the errors returned by the inserts and removes must be explained by one
//     sequential order of these operations on a set, and the index must hold
//     exactly the set that order produces (Get per id, Len);
//   - a concurrent search returns only items that were present initially or
//     were inserted concurrently, each with its true score, ascending, unique,
//     at most k;
//   - at quiescence a search has the sequential guarantees of C01.
// Plain-memory data races are not visible to this executor (blocks between
// scheduling points are atomic) and are outside the claim.

var verifC13Pos = [4]float32{4, 1, 7, 2}

func verifC13Vec(i int) math.Vector { return math.Vector{verifC13Pos[i]} }

type verifC13Op struct {
	kind int // 0 insert, 1 remove, 2 search, 3 get+len, 4 get then search
	id   int
	lvl  int
	k    int
	q    float32
	err  error
	res  SearchResult
	n    int
	gerr error
}

func VerifC13() {
	verifrt.Preemptions(verifrt.Bound("preempt", 2))
	verifrt.AtomicSwitch(verifrt.Bound("atomics", 1) == 1)
	verifrt.RaceDetect(verifrt.Bound("race", 0) == 1)
	cfgs := verifConfigs()
	ci := verifrt.Bound("cfg", -1)
	if ci < 0 {
		ci = verifrt.Choose("cfg", verifrt.Bound("ncfg", len(cfgs)))
	}
	idx := verifNewIndex(1, cfgs[ci])
	nIds := verifrt.Bound("ids", 3)
	maxLevel := verifrt.Bound("maxlevel", 1)
	threads := verifrt.Bound("threads", 2)
	kinds := verifrt.Bound("kinds", 3)
	var present [4]bool
	n0 := verifrt.IntIn("initial-items", 0, verifrt.Bound("init", 2))
	for i := 0; i < n0; i++ {
		lvl := verifrt.IntIn("level", 0, maxLevel)
		if idx.Insert(verifId(i), verifC13Vec(i), nil, lvl) != nil {
			verifrt.Assert(false, "sequential-insert-succeeds")
			return
		}
		present[i] = true
	}
	writers := verifrt.Bound("writers", threads)
	ops := make([]*verifC13Op, threads)
	nw := 0
	for t := range ops {
		var kind int
		if t < writers {
			kind = verifrt.Bound("minkind", 0) + verifrt.Choose("op", kinds-verifrt.Bound("minkind", 0))
		} else {
			kind = 2 + verifrt.Bound("minread", 0) + verifrt.Choose("read-op", verifrt.Bound("readkinds", 2)-verifrt.Bound("minread", 0))
		}
		if kind <= 1 {
			nw++
		}
		op := &verifC13Op{kind: kind, id: verifrt.IntIn("id", 0, nIds-1)}
		switch op.kind {
		case 0:
			op.lvl = verifrt.IntIn("level", 0, maxLevel)
		case 2, 4:
			op.k = verifrt.IntIn("k", 1, 2)
			op.q = verifC13Pos[op.id]
		}
		ops[t] = op
	}
	if nw >= 2 {
		// identify the history for the known-findings file
		verifrt.Tag("concurrent-writers")
		ni, nr := 0, 0
		same := false
		for a, op := range ops {
			if op.kind == 0 {
				ni++
			}
			if op.kind == 1 {
				nr++
			}
			for b := 0; b < a; b++ {
				if op.kind <= 1 && ops[b].kind <= 1 && ops[b].id == op.id {
					same = true
				}
			}
		}
		switch {
		case ni >= 1 && nr >= 1:
			verifrt.Tag("insert||remove")
		case ni >= 2:
			verifrt.Tag("insert||insert")
		default:
			verifrt.Tag("remove||remove")
		}
		if same {
			verifrt.Tag("same-id")
		}
	}
	var wg sync.WaitGroup
	// natively the goroutines are released together (the replay repeats the
	// history many times and relies on real parallelism); the symbolic
	// executor controls the schedule itself
	start := make(chan struct{})
	native := !verifrt.IsSymbolicRun()
	for _, op := range ops {
		op := op
		wg.Add(1)
		go func() {
			defer wg.Done()
			if native {
				<-start
			}
			switch op.kind {
			case 0:
				op.err = idx.Insert(verifId(op.id), verifC13Vec(op.id), nil, op.lvl)
			case 1:
				op.err = idx.Remove(verifId(op.id))
			case 2:
				op.res, op.err = idx.Search(context.Background(), math.Vector{op.q}, uint(op.k))
			case 3:
				_, op.err = idx.Get(verifId(op.id))
				op.n = idx.Len()
			case 4:
				// one reader: first told that the item is gone, then searching
				_, op.gerr = idx.Get(verifId(op.id))
				op.res, op.err = idx.Search(context.Background(), math.Vector{op.q}, uint(op.k))
			}
		}()
	}
	close(start)
	wg.Wait()
	verifrt.Reach("joined")

	// set linearizability of the inserts and removes
	var writes []*verifC13Op
	for _, op := range ops {
		if op.kind <= 1 {
			writes = append(writes, op)
		}
	}
	var final [4]bool
	explained := false
	perm := make([]int, len(writes))
	var try func(depth int, used uint)
	try = func(depth int, used uint) {
		if explained {
			return
		}
		if depth == len(writes) {
			st := present
			for _, wi := range perm {
				w := writes[wi]
				if w.kind == 0 {
					if st[w.id] != (w.err == ItemAlreadyExistsError) || (!st[w.id] && w.err != nil) {
						return
					}
					st[w.id] = true
				} else {
					if st[w.id] != (w.err == nil) || (!st[w.id] && w.err != ItemNotFoundError) {
						return
					}
					st[w.id] = false
				}
			}
			// the index must hold exactly this set
			n := 0
			for i := 0; i < nIds; i++ {
				_, err := idx.Get(verifId(i))
				if (err == nil) != st[i] {
					return
				}
				if st[i] {
					n++
				}
			}
			if idx.Len() != n {
				return
			}
			final, explained = st, true
			return
		}
		for i := range writes {
			if used&(1<<uint(i)) == 0 {
				perm[depth] = i
				try(depth+1, used|1<<uint(i))
			}
		}
	}
	try(0, 0)
	verifrt.Assert(explained, "insert-remove-outcomes-and-contents-linearizable-per-id")
	if !explained {
		return
	}

	// concurrent reads
	for _, op := range ops {
		switch op.kind {
		case 2, 4:
			if op.kind == 4 && op.gerr == ItemNotFoundError {
				// the item was gone before the search began; only a concurrent insert of the
				// same id can make it live again during the search
				revived := false
				for _, w := range writes {
					if w.kind == 0 && w.id == op.id {
						revived = true
					}
				}
				if !revived {
					for _, item := range op.res {
						verifrt.Assert(verifIdIndex(item.Id) != op.id, "search-after-a-get-said-not-found-does-not-return-the-item")
					}
					verifrt.Tag("get-not-found-then-search")
				}
			}
			verifrt.Assert(op.err == nil, "concurrent-search-succeeds")
			verifrt.Assert(len(op.res) <= op.k, "concurrent-search-at-most-k")
			for j, item := range op.res {
				i := verifIdIndex(item.Id)
				live := i >= 0 && present[i]
				for _, w := range writes {
					if w.kind == 0 && w.id == i && w.err == nil {
						live = true
					}
				}
				verifrt.Assert(live, "concurrent-search-item-was-live-during-the-search")
				if i < 0 {
					continue
				}
				verifrt.Assert(item.Score == idx.space.Distance(math.Vector{op.q}, verifC13Vec(i)), "concurrent-search-score-is-true-distance")
				if j > 0 {
					verifrt.Assert(op.res[j-1].Score <= item.Score, "concurrent-search-ascending")
					verifrt.Assert(op.res[j-1].Id != item.Id, "concurrent-search-no-duplicates")
				}
			}
		case 3:
			// Get of an id no concurrent write touches answers like the initial state
			touched := false
			for _, w := range writes {
				if w.id == op.id {
					touched = true
				}
			}
			if !touched {
				verifrt.Assert((op.err == nil) == present[op.id], "concurrent-get-of-untouched-id")
			}
			lo, hi := 0, 0
			for _, p := range present {
				if p {
					lo++
					hi++
				}
			}
			for _, w := range writes {
				if w.kind == 0 && w.err == nil {
					hi++
				}
				if w.kind == 1 && w.err == nil {
					lo--
				}
			}
			verifrt.Assert(op.n >= lo && op.n <= hi, "concurrent-len-within-reachable-counts")
		}
	}

	// quiescence: the sequential search guarantees
	count := 0
	for _, p := range final {
		if p {
			count++
		}
	}
	for qi := 0; qi < nIds; qi++ {
		q := math.Vector{verifC13Pos[qi]}
		k := 2
		res, err := idx.Search(context.Background(), q, uint(k))
		verifrt.Assert(err == nil, "quiescent-search-succeeds")
		verifrt.Assert(len(res) <= k, "quiescent-at-most-k")
		if count > 0 {
			verifrt.Assert(len(res) > 0, "quiescent-non-empty-index-non-empty-result")
		}
		for j, item := range res {
			i := verifIdIndex(item.Id)
			verifrt.Assert(i >= 0 && final[i], "quiescent-returned-item-is-live")
			if i < 0 {
				continue
			}
			verifrt.Assert(item.Score == idx.space.Distance(q, verifC13Vec(i)), "quiescent-score-is-true-distance")
			if j > 0 {
				verifrt.Assert(res[j-1].Score <= item.Score, "quiescent-ascending")
				verifrt.Assert(res[j-1].Id != item.Id, "quiescent-no-duplicates")
			}
		}
	}
	verifrt.Reach("end")
}

// VerifC13Update: one writer replaces an item the way the partition's update
// does (Remove, then Insert of the same id with a new vector) while one reader
// searches. Every interleaving at lock acquisitions and atomic operations
// within the preemption bound. The reader's answer must not contain an id
// twice; every returned item carries the true score of a version of that item
// that was live during the search (old or new vector for the updated id);
// ascending, at most k. Afterwards the index holds the new version only.
func VerifC13Update() {
	verifrt.Preemptions(verifrt.Bound("preempt", 2))
	verifrt.AtomicSwitch(verifrt.Bound("atomics", 1) == 1)
	verifrt.RaceDetect(verifrt.Bound("race", 0) == 1)
	cfgs := verifConfigs()
	idx := verifNewIndex(1, cfgs[verifrt.Bound("cfg", 4)])
	n0 := verifrt.IntIn("initial-items", verifrt.Bound("mininit", 2), verifrt.Bound("init", 3))
	maxLevel := verifrt.Bound("maxlevel", 1)
	for i := 0; i < n0; i++ {
		if idx.Insert(verifId(i), verifC13Vec(i), nil, verifrt.IntIn("level", 0, maxLevel)) != nil {
			verifrt.Assert(false, "sequential-insert-succeeds")
			return
		}
	}
	u := verifrt.IntIn("updated-id", 0, n0-1)
	newVec := math.Vector{verifC13Pos[u] + 0.5}
	newLvl := verifrt.IntIn("new-level", 0, maxLevel)
	k := verifrt.IntIn("k", verifrt.Bound("mink", 1), n0)
	q := math.Vector{verifC13Pos[verifrt.IntIn("query-at", 0, verifrt.Bound("queries", n0)-1)]}
	var res SearchResult
	var serr, rerr, ierr error
	var wg sync.WaitGroup
	start := make(chan struct{})
	native := !verifrt.IsSymbolicRun()
	wg.Add(2)
	go func() {
		defer wg.Done()
		if native {
			<-start
		}
		rerr = idx.Remove(verifId(u))
		ierr = idx.Insert(verifId(u), newVec, nil, newLvl)
	}()
	go func() {
		defer wg.Done()
		if native {
			<-start
		}
		res, serr = idx.Search(context.Background(), q, uint(k))
	}()
	close(start)
	wg.Wait()
	verifrt.Reach("joined")
	verifrt.Assert(rerr == nil && ierr == nil, "update-succeeds")
	verifrt.Assert(serr == nil, "concurrent-search-succeeds")
	verifrt.Assert(len(res) <= k, "concurrent-search-at-most-k")
	for j, item := range res {
		i := verifIdIndex(item.Id)
		verifrt.Assert(i >= 0 && i < n0, "concurrent-search-item-was-live-during-the-search")
		if i < 0 || i >= n0 {
			continue
		}
		for j2 := 0; j2 < j; j2++ {
			verifrt.Assert(res[j2].Id != item.Id, "concurrent-search-returns-an-id-once")
		}
		okScore := item.Score == idx.space.Distance(q, verifC13Vec(i))
		if i == u && item.Score == idx.space.Distance(q, newVec) {
			okScore = true
		}
		verifrt.Assert(okScore, "concurrent-search-score-is-the-true-distance-of-a-version-of-the-item")
		if j > 0 {
			verifrt.Assert(res[j-1].Score <= item.Score, "concurrent-search-ascending")
		}
	}
	// quiescence: the new version only
	v, gerr := idx.Get(verifId(u))
	verifrt.Assert(gerr == nil && len(v) == 1 && v[0] == newVec[0], "after-the-update-the-index-holds-the-new-version")
	verifrt.Assert(idx.Len() == n0, "after-the-update-the-count-is-unchanged")
	verifrt.Reach("end")
}

//go:build verif

package index

import (
	"context"

	"github.com/marekgalovic/anndb/verifrt"
)

// Harness for C07 (exactness clause): an insert-only collection of at most
// 2M+1 items that the beam covers (n <= max(ef,k)) answers a search with
// exactly the min(k,n) nearest items in exact order. Points, query and
// levels are symbolic / path decisions; the oracle is brute force over the
// same distance terms, expressed with counting (no sorting, no forking).
func VerifC07() {
	M := verifrt.Bound("m", 1)
	dim := verifrt.Bound("dim", 1)
	grid := verifrt.Bound("grid", 15)
	maxLevel := verifrt.Bound("maxlevel", 1)
	verifrt.MapOrder(verifrt.Bound("maporder", 0))
	mode := verifrt.Choose("mode", verifrt.Bound("modes", 4)) // 0 simple, 1 heuristic keep, 2 heuristic extend+keep, 3 heuristic extend
	cfg := verifCfg{m: M, mMax0: 2 * M, ef: verifrt.IntIn("ef", 1, verifrt.Bound("maxef", 3)), efC: verifrt.IntIn("efc", 1, 2)}
	switch mode {
	case 1:
		cfg.heuristic, cfg.keep = true, true
	case 2:
		cfg.heuristic, cfg.extend, cfg.keep = true, true, true
	case 3:
		cfg.heuristic, cfg.extend = true, true
	}
	n := verifrt.IntIn("n", 1, 2*M+1)
	k := verifrt.IntIn("k", 1, verifrt.Bound("maxk", 3))
	cover := cfg.ef
	if k > cover {
		cover = k
	}
	if n > cover {
		return // outside the property's premise
	}
	idx := verifNewIndex(dim, cfg)
	switch verifrt.Bound("defaults", 0) {
	case 1:
		// the upper-layer budget is configured (smaller than M), the layer-0 budget is left
		// to its default: the premise "at most 2M+1 items" speaks of that default
		idx = verifNewIndexWith(dim, cfg, HnswM(M), HnswMmax(M-1))
	case 2:
		// only M is configured
		idx = verifNewIndexWith(dim, cfg, HnswM(M))
	}
	ref := &verifRef{}
	for i := 0; i < n; i++ {
		vec := verifVector("vec", dim, grid)
		err := idx.Insert(verifId(i), vec, nil, verifrt.IntIn("level", 0, maxLevel))
		verifrt.Assert(err == nil, "insert-succeeds")
		ref.present[i], ref.vec[i] = true, vec
	}
	query := verifVector("query", dim, grid)
	res, err := idx.Search(context.Background(), query, uint(k))
	verifrt.Assert(err == nil, "search-succeeds")
	want := k
	if n < want {
		want = n
	}
	verifrt.Assert(len(res) == want, "returns-min-k-n-items")
	verifrt.Reach("searched")
	dist := make([]float32, n)
	for j := 0; j < n; j++ {
		dist[j] = idx.space.Distance(query, ref.vec[j])
	}
	for i, item := range res {
		// rank condition: score is the (i+1)-th smallest distance
		less, lessEq := 0, 0
		for j := 0; j < n; j++ {
			less += verifrt.B2I(dist[j] < item.Score)
			lessEq += verifrt.B2I(dist[j] <= item.Score)
		}
		verifrt.Assert(less <= i, "score-not-larger-than-rank-allows")
		verifrt.Assert(lessEq >= i+1, "score-not-smaller-than-rank-allows")
		j := verifIdIndex(item.Id)
		verifrt.Assert(j >= 0 && j < n, "returned-id-was-inserted")
		if j >= 0 && j < n {
			verifrt.Assert(item.Score == dist[j], "score-is-true-distance")
		}
	}
}

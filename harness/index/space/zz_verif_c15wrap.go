//go:build verif

package space

import (
	"sync"

	"github.com/marekgalovic/anndb/simd/avx"
	"github.com/marekgalovic/anndb/simd/sse"
	"github.com/marekgalovic/anndb/verifrt"
)

// Harness for C15 (the Go wrappers around the assembly kernels): the kernels
// are what asmsmt decides (checks/c15.py); here two goroutines call one wrapper
// at the same time, each with its own vectors - the way concurrent searches
// use a space - with race detection on. Under the symbolic executor a kernel is
// replaced by its memory effect: it reads both vectors and writes its results
// through the result pointers (a value derived from the first lane, so that
// two callers expect different results). A wrapper that hands its kernel a
// shared result slot is a data race, and one caller can get the other's value.
func VerifC15Wrappers() {
	verifrt.Hook("simd-real-wrappers", func() {})
	verifrt.RaceDetect(true)
	verifrt.Preemptions(verifrt.Bound("preempt", 2))
	impls := []func(a, b []float32) float32{
		avx.EuclideanDistance, avx.ManhattanDistance, avx.CosineDistance,
		sse.EuclideanDistance, sse.ManhattanDistance, sse.CosineDistance,
	}
	k := verifrt.Choose("wrapper", len(impls))
	f := impls[k]
	vecs := [][2][]float32{
		{{4, 0, 0, 3}, {1, 1, 0, 0}},
		{{9, 2, 0, 1}, {0, 1, 5, 0}},
	}
	// what each caller gets when it is alone
	var alone [2]float32
	for i := range vecs {
		alone[i] = f(vecs[i][0], vecs[i][1])
	}
	var got [2]float32
	var wg sync.WaitGroup
	start := make(chan struct{})
	native := !verifrt.IsSymbolicRun()
	for i := range vecs {
		i := i
		wg.Add(1)
		go func() {
			defer wg.Done()
			if native {
				<-start
			}
			got[i] = f(vecs[i][0], vecs[i][1])
		}()
	}
	close(start)
	wg.Wait()
	verifrt.Reach("joined")
	for i := range vecs {
		verifrt.Assert(got[i] == alone[i], "concurrent-callers-get-their-own-result")
	}
}

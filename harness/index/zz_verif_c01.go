//go:build verif

package index

import (
	"bytes"
	"context"

	"github.com/marekgalovic/anndb/verifrt"
)

// Harness for C01: after any history of insert / remove / save+load on one
// index, a search returns only live items, with their true scores, sorted,
// unique, at most k, and never an empty list from a non-empty index (k>=1).
// History shape, ids, levels, k and the configuration are path decisions;
// vectors and the query are solver variables (1-D or 2-D grid, real Manhattan
// kernel executed symbolically).
func VerifC01() {
	L := verifrt.Bound("ops", 4)
	dim := verifrt.Bound("dim", 1)
	grid := verifrt.Bound("grid", 15)
	maxLevel := verifrt.Bound("maxlevel", 1)
	nIds := verifrt.Bound("ids", 4)
	withSave := verifrt.Bound("save", 0)
	verifrt.MapOrder(verifrt.Bound("maporder", 0))
	cfgs := verifConfigs()
	ci := verifrt.Bound("cfg", -1)
	if ci < 0 {
		ci = verifrt.Choose("cfg", verifrt.Bound("ncfg", len(cfgs)))
	}
	cfg := cfgs[ci]
	idx := verifNewIndex(dim, cfg)
	ref := &verifRef{}
	used := 0 // ids 0..used-1 have been inserted at least once
	// shape bounds: fresh=1: an insert always takes the next unused id;
	// phase=1: once something was removed nothing is inserted any more
	fresh := verifrt.Bound("fresh", 0) == 1
	phase := verifrt.Bound("phase", 0) == 1
	removed := false
	for step := 0; step < L; step++ {
		nops := 2
		if withSave == 1 {
			nops = 3
		}
		op := verifrt.Choose("op", nops)
		if op == 0 && ((phase && removed) || (fresh && used >= nIds)) {
			continue
		}
		switch op {
		case 0: // insert
			hi := used
			if hi >= nIds {
				hi = nIds - 1
			}
			lo := 0
			if fresh {
				lo = hi
			}
			i := verifrt.IntIn("id", lo, hi)
			if i == used {
				used++
			}
			vec := verifVector("vec", dim, grid)
			lvl := verifrt.IntIn("level", 0, maxLevel)
			var md Metadata
			if verifrt.Bound("meta", 0) == 1 {
				md = Metadata{"k": string(rune('a' + step))}
			}
			err := idx.Insert(verifId(i), vec, md, lvl)
			if ref.present[i] {
				verifrt.Assert(err == ItemAlreadyExistsError, "insert-existing-fails")
			} else {
				verifrt.Assert(err == nil, "insert-new-succeeds")
				ref.present[i], ref.vec[i], ref.meta[i] = true, vec, md
			}
		case 1: // remove
			if used == 0 {
				continue
			}
			i := verifrt.IntIn("id", 0, used-1)
			err := idx.Remove(verifId(i))
			if ref.present[i] {
				verifrt.Assert(err == nil, "remove-existing-succeeds")
				ref.present[i] = false
				removed = true
				verifrt.Tag("after-remove")
			} else {
				verifrt.Assert(err == ItemNotFoundError, "remove-absent-fails")
			}
		case 2: // snapshot save + load into a fresh index (empty snapshots are C08's subject)
			if ref.count() == 0 {
				continue
			}
			var buf bytes.Buffer
			if err := idx.Save(&buf, false); err != nil {
				verifrt.Assert(false, "save-succeeds")
				return
			}
			fresh := verifNewIndex(dim, cfg)
			if err := fresh.Load(&buf, false); err != nil {
				verifrt.Tag("load-failed")
				verifrt.Assert(false, "load-own-output-succeeds")
				return
			}
			idx = fresh
			verifrt.Tag("after-save-load")
		}
		verifrt.Assert(idx.Len() == ref.count(), "len-equals-live-count")
	}

	query := verifVector("query", dim, grid)
	k := verifrt.IntIn("k", 0, verifrt.Bound("maxk", 3))
	res, err := idx.Search(context.Background(), query, uint(k))
	verifrt.Assert(err == nil, "search-succeeds")
	verifrt.Reach("searched")
	verifrt.Assert(len(res) <= k, "at-most-k")
	if ref.count() > 0 && k >= 1 {
		verifrt.Assert(len(res) > 0, "non-empty-index-non-empty-result")
	}
	for j, item := range res {
		i := verifIdIndex(item.Id)
		verifrt.Assert(i >= 0 && ref.present[i], "returned-item-is-live")
		if i < 0 || !ref.present[i] {
			continue
		}
		verifrt.Assert(item.Score == idx.space.Distance(query, ref.vec[i]), "score-is-true-distance")
		if verifrt.Bound("meta", 0) == 1 {
			verifrt.Assert(len(item.Metadata) == len(ref.meta[i]) && item.Metadata["k"] == ref.meta[i]["k"], "metadata-is-current")
		}
		if j > 0 {
			verifrt.Assert(res[j-1].Score <= item.Score, "ascending-scores")
		}
		for j2 := 0; j2 < j; j2++ {
			verifrt.Assert(res[j2].Id != item.Id, "no-duplicate-ids")
		}
	}
}

//go:build verif

package index

import (
	"bytes"
	"strings"
	"sync/atomic"

	"github.com/marekgalovic/anndb/verifrt"
)

// Harness for C08: Save/Load round trip of every reachable index state
// through a fragmenting reader, into a fresh or a used index.

// verifChunkReader returns at most `chunk` bytes per Read call (0 = as many as asked).
type verifChunkReader struct {
	data  []byte
	at    int
	chunk int
	calls int
}

func (r *verifChunkReader) Read(p []byte) (int, error) {
	r.calls++
	if len(p) == 0 {
		return 0, nil
	}
	if r.at >= len(r.data) {
		return 0, verifEOF
	}
	n := len(p)
	if r.chunk > 0 && n > r.chunk {
		n = r.chunk
	}
	if n > len(r.data)-r.at {
		n = len(r.data) - r.at
	}
	copy(p, r.data[r.at:r.at+n])
	r.at += n
	return n, nil
}

// verifSameIndex asserts that two indexes hold the same observable state.
func verifSameIndex(a, b *Hnsw, nIds int, what string) {
	verifrt.Assert(a.Len() == b.Len(), what+"-same-len")
	ea := (*hnswVertex)(atomic.LoadPointer(&a.entrypoint))
	eb := (*hnswVertex)(atomic.LoadPointer(&b.entrypoint))
	verifrt.Assert((ea == nil) == (eb == nil), what+"-same-entrypoint-presence")
	if ea != nil && eb != nil {
		verifrt.Assert(ea.id == eb.id, what+"-same-entrypoint")
	}
	for i := 0; i < nIds; i++ {
		va, erra := a.GetVertex(verifId(i))
		vb, errb := b.GetVertex(verifId(i))
		verifrt.Assert((erra == nil) == (errb == nil), what+"-same-ids")
		if erra != nil || errb != nil {
			continue
		}
		verifrt.Assert(va.level == vb.level, what+"-same-level")
		verifrt.Assert(len(va.vector) == len(vb.vector), what+"-same-dimension")
		if len(va.vector) == len(vb.vector) {
			for d := range va.vector {
				verifrt.Assert(va.vector[d] == vb.vector[d], what+"-same-vector")
			}
		}
		verifrt.Assert(len(va.metadata) == len(vb.metadata), what+"-same-metadata-size")
		for k, v := range va.metadata {
			w, ok := vb.metadata[k]
			verifrt.Assert(ok && v == w, what+"-same-metadata")
		}
		if va.level != vb.level {
			continue
		}
		for l := 0; l <= va.level; l++ {
			// links among live items, with their stored distances
			for j := 0; j < nIds; j++ {
				na, _ := a.GetVertex(verifId(j))
				nb, _ := b.GetVertex(verifId(j))
				var da, db float32
				ha, hb := false, false
				if na != nil {
					da, ha = va.edges[l][na]
				}
				if nb != nil {
					db, hb = vb.edges[l][nb]
				}
				verifrt.Assert(ha == hb, what+"-same-links")
				if ha && hb {
					verifrt.Assert(da == db, what+"-same-link-distance")
				}
			}
			// no link to anything that is not a stored item
			for n := range vb.edges[l] {
				verifrt.Assert(n != nil && !n.isDeleted(), what+"-no-dangling-link")
			}
		}
	}
}

func verifC08Meta(step int) Metadata {
	switch verifrt.Choose("meta", verifrt.Bound("metashapes", 3)) {
	case 0:
		return nil
	case 1:
		return Metadata{"k": "v" + string(rune('0'+step))}
	default:
		return Metadata{"a": "\xff\xfe", "": "x", "bb": ""}
	}
}

func VerifC08() {
	L := verifrt.Bound("ops", 3)
	dim := verifrt.Bound("dim", 1)
	grid := verifrt.Bound("grid", 15)
	nIds := verifrt.Bound("ids", 3)
	maxLevel := verifrt.Bound("maxlevel", 1)
	cfgs := verifConfigs()
	cfg := cfgs[verifrt.Bound("cfg", 1)]
	pick := func(name string, n int) int {
		if v := verifrt.Bound(name, -1); v >= 0 {
			return v
		}
		return verifrt.Choose(name, n)
	}
	header := pick("header", 2) == 1
	src := verifNewIndex(dim, cfg)
	used := 0
	for step := 0; step < L; step++ {
		switch verifrt.Choose("op", 3) {
		case 0:
			hi := used
			if hi >= nIds {
				hi = nIds - 1
			}
			i := verifrt.IntIn("id", 0, hi)
			if i == used {
				used++
			}
			src.Insert(verifId(i), verifVector("vec", dim, grid), verifC08Meta(step), verifrt.IntIn("level", 0, maxLevel))
		case 1:
			if used == 0 {
				continue
			}
			src.Remove(verifId(verifrt.IntIn("id", 0, used-1)))
			verifrt.Tag("after-remove")
		case 2:
			// no-op: shorter histories (incl. the empty index)
		}
	}
	if src.Len() == 0 {
		verifrt.Tag("empty-index")
	}
	var buf bytes.Buffer
	err := src.Save(&buf, header)
	verifrt.Assert(err == nil, "save-succeeds")
	if err != nil {
		return
	}
	saved := append([]byte(nil), buf.Bytes()...)

	// target: fresh, or used (holding an item of its own, different id and config-compatible)
	dst := verifNewIndex(dim, cfg)
	if pick("target", 2) == 1 {
		dst.Insert(verifId(5), verifVector("old", dim, grid), Metadata{"stale": "yes"}, 0)
		dst.Insert(verifId(0), verifVector("old", dim, grid), nil, 0)
		verifrt.Tag("used-target")
	}
	chunk := 0
	switch pick("reader", 3) {
	case 1:
		chunk = 1
		verifrt.Tag("reader-1-byte")
	case 2:
		chunk = verifrt.IntIn("chunk", 2, 5)
		verifrt.Tag("reader-chunked")
	}
	rd := &verifChunkReader{data: saved, chunk: chunk}
	err = dst.Load(rd, header)
	verifrt.Assert(err == nil, "load-own-output-succeeds")
	verifrt.Reach("loaded")
	if err != nil {
		return
	}
	verifrt.Assert(rd.at == len(saved), "load-consumes-exactly-the-bytes-written")
	verifSameIndex(src, dst, nIds+3, "loaded")
	verifrt.Assert(atomic.LoadUint64(&dst.bytesSize) == atomic.LoadUint64(&src.bytesSize), "loaded-byte-counter-equals-saved")
	_, stale := dst.Get(verifId(5))
	verifrt.Assert(stale == ItemNotFoundError, "no-stale-items")

	// the loaded index saves to a stream that loads to the same state
	var buf2 bytes.Buffer
	err = dst.Save(&buf2, header)
	verifrt.Assert(err == nil, "resave-succeeds")
	third := verifNewIndex(dim, cfg)
	err = third.Load(&buf2, header)
	verifrt.Assert(err == nil, "reload-succeeds")
	if err == nil {
		verifSameIndex(dst, third, nIds+3, "reloaded")
	}
	verifrt.Reach("end")
}

// VerifC08Len: length fields. Key/value lengths around the width of their
// length fields are solver variables (concretised to build real strings);
// the round trip must preserve the metadata or Save must refuse.
func VerifC08Len() {
	klen := verifrt.SymIntIn("klen", verifrt.Bound("klo", 254), verifrt.Bound("khi", 257))
	vlen := verifrt.SymIntIn("vlen", verifrt.Bound("vlo", 65534), verifrt.Bound("vhi", 65537))
	key := strings.Repeat("k", klen)
	val := strings.Repeat("v", vlen)
	if verifrt.Bound("wide", 0) == 1 {
		// the length fields count bytes: keys and values of two-byte characters reach the
		// limits at half the number of characters
		val = "v"
		key = strings.Repeat("\u0436", verifrt.SymIntIn("kchars", 126, 129))
		if verifrt.Choose("wide-value", 2) == 1 {
			key = "k"
			val = strings.Repeat("\u0436", verifrt.SymIntIn("vchars", 32766, 32769))
		}
	}
	if len(key) > 255 {
		verifrt.Tag("key-longer-than-255")
	}
	if len(val) > 65535 {
		verifrt.Tag("value-longer-than-65535")
	}
	cfg := verifConfigs()[1]
	src := verifNewIndex(1, cfg)
	ierr := src.Insert(verifId(0), verifVector("vec", 1, 3), Metadata{key: val}, 0)
	var buf bytes.Buffer
	if ierr != nil {
		// metadata the stream layout cannot represent may be refused at insertion;
		// then nothing of the item may be stored
		verifrt.Reach("insert-refused")
		verifrt.Assert(len(key) > 255 || len(val) > 65535, "representable-metadata-is-accepted")
		_, gerr := src.GetVertex(verifId(0))
		verifrt.Assert(gerr != nil && src.Len() == 0 && src.BytesSize() == 0, "refused-insert-stores-nothing")
		return
	}
	err := src.Save(&buf, false)
	if err != nil {
		verifrt.Reach("save-refused")
		return
	}
	dst := verifNewIndex(1, cfg)
	err = dst.Load(&buf, false)
	verifrt.Assert(err == nil, "load-own-output-succeeds")
	if err != nil {
		return
	}
	v, gerr := dst.GetVertex(verifId(0))
	verifrt.Assert(gerr == nil, "item-survives")
	if gerr != nil {
		return
	}
	got, ok := v.metadata[key]
	verifrt.Assert(ok, "long-key-survives")
	verifrt.Assert(len(got) == len(val), "long-value-survives")
	verifrt.Assert(buf.Len() == 0, "load-consumes-exactly-the-bytes-written")
	verifrt.Reach("len-end")
}

//go:build verif

package index

import (
	"io"
	"github.com/marekgalovic/anndb/index/space"
	"github.com/marekgalovic/anndb/math"
	uuid "github.com/satori/go.uuid"

	"github.com/marekgalovic/anndb/verifrt"
)

// Shared harness helpers for package index.

// verifIds is the id universe: ids 0 and 1 fall in the same vertex shard
// (UuidMod(id,16) equal), 2 and 3 in two other shards.
func verifId(i int) uuid.UUID {
	var u uuid.UUID
	u[15] = 0xA0
	switch i {
	case 0:
		u[0] = 0x01 // lo mod 16 = 1, hi: 0xA0<<56 mod 16 = 0 -> shard 1
	case 1:
		u[0] = 0x11 // shard 1 as well
	case 2:
		u[0] = 0x02
	case 3:
		u[0] = 0x03
	default:
		u[0] = byte(0x04 + i)
	}
	return u
}

func verifIdIndex(id uuid.UUID) int {
	for i := 0; i < 8; i++ {
		if uuid.Equal(verifId(i), id) {
			return i
		}
	}
	return -1
}

type verifCfg struct {
	m, mMax0, ef, efC int
	heuristic         bool
	extend, keep      bool
}

// verifConfig enumerates small index configurations (a path decision).
func verifConfigs() []verifCfg {
	return []verifCfg{
		{m: 1, mMax0: 1, ef: 1, efC: 1},
		{m: 1, mMax0: 2, ef: 2, efC: 2},
		{m: 1, mMax0: 1, ef: 2, efC: 2, heuristic: true, keep: true},
		{m: 2, mMax0: 2, ef: 1, efC: 1},
		{m: 2, mMax0: 4, ef: 3, efC: 2},
		{m: 1, mMax0: 2, ef: 1, efC: 2, heuristic: true, extend: true, keep: true},
		{m: 2, mMax0: 2, ef: 2, efC: 2, heuristic: true, extend: true},
	}
}

func verifNewIndex(dim int, c verifCfg) *Hnsw {
	alg := HnswSearchSimple
	if c.heuristic {
		alg = HnswSearchHeuristic
	}
	return NewHnsw(uint(dim), space.NewManhattan(),
		HnswM(c.m), HnswMmax(c.m), HnswMmax0(c.mMax0), HnswEf(c.ef), HnswEfConstruction(c.efC),
		HnswLevelMultiplier(1), HnswSearchAlgorithm(alg),
		HnswHeuristicExtendCandidates(c.extend), HnswHeuristicKeepPruned(c.keep))
}

// verifNewIndexWith leaves the link budgets to the given options (and to the
// defaults of newHnswConfig for those not given).
func verifNewIndexWith(dim int, c verifCfg, budgets ...HnswOption) *Hnsw {
	alg := HnswSearchSimple
	if c.heuristic {
		alg = HnswSearchHeuristic
	}
	opts := append([]HnswOption{}, budgets...)
	opts = append(opts, HnswEf(c.ef), HnswEfConstruction(c.efC),
		HnswLevelMultiplier(1), HnswSearchAlgorithm(alg),
		HnswHeuristicExtendCandidates(c.extend), HnswHeuristicKeepPruned(c.keep))
	return NewHnsw(uint(dim), space.NewManhattan(), opts...)
}

// verifVector draws a dim-dimensional vector of grid floats (integers 0..hi).
func verifVector(name string, dim, hi int) math.Vector {
	v := make(math.Vector, dim)
	for i := range v {
		v[i] = verifrt.F32Grid(name, 0, hi)
	}
	return v
}

// verifRef is the sequential reference: id -> (vector, metadata, level).
type verifRef struct {
	present [8]bool
	vec     [8]math.Vector
	meta    [8]Metadata
}

func (r *verifRef) count() int {
	n := 0
	for _, p := range r.present {
		if p {
			n++
		}
	}
	return n
}

var verifEOF = io.EOF

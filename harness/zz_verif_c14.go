//go:build verif

package anndb

import (
	"context"
	"math"

	pb "github.com/marekgalovic/anndb/protobuf"

	etcdRaft "github.com/coreos/etcd/raft"
	"github.com/coreos/etcd/raft/raftpb"
	uuid "github.com/satori/go.uuid"

	"github.com/marekgalovic/anndb/verifrt"
)

// Harness for C14 (restart clause) and C05 (start vs restart): the real
// Server.setup wiring is executed twice on the same data directory. The etcd
// raft node is a harness node (verifrt.Hook) that behaves like a one-member
// group: every proposal commits at once, a (re)started node re-delivers the
// stored entries after the snapshot as committed, and StartNode appends the
// initial membership entry like raft's bootstrap does. Sockets and the gRPC
// server are stubs.

type verifBootNode struct {
	readyc chan etcdRaft.Ready
	idx    uint64
}

var (
	verifBootKinds []string // "StartNode"/"RestartNode" per node construction, in order
	verifBootHad   []bool   // whether durable state existed at that construction
	verifBootNodes []*verifBootNode
)

func (n *verifBootNode) commit(t raftpb.EntryType, data []byte) {
	n.idx++
	e := raftpb.Entry{Type: t, Index: n.idx, Term: 1, Data: data}
	n.readyc <- etcdRaft.Ready{
		HardState:        raftpb.HardState{Term: 1, Vote: 1, Commit: n.idx},
		Entries:          []raftpb.Entry{e},
		CommittedEntries: []raftpb.Entry{e},
	}
}
func (n *verifBootNode) Tick()                              {}
func (n *verifBootNode) Campaign(ctx context.Context) error { return nil }
func (n *verifBootNode) Propose(ctx context.Context, data []byte) error {
	n.commit(raftpb.EntryNormal, data)
	return nil
}
func (n *verifBootNode) ProposeConfChange(ctx context.Context, cc raftpb.ConfChange) error {
	data, err := cc.Marshal()
	if err != nil {
		return err
	}
	n.commit(raftpb.EntryConfChange, data)
	return nil
}
func (n *verifBootNode) Step(ctx context.Context, msg raftpb.Message) error { return nil }
func (n *verifBootNode) Ready() <-chan etcdRaft.Ready                       { return n.readyc }
func (n *verifBootNode) Advance()                                           {}
func (n *verifBootNode) ApplyConfChange(cc raftpb.ConfChange) *raftpb.ConfState {
	return &raftpb.ConfState{Nodes: []uint64{1}}
}
func (n *verifBootNode) TransferLeadership(ctx context.Context, lead, transferee uint64) {}
func (n *verifBootNode) ReadIndex(ctx context.Context, rctx []byte) error             { return nil }
func (n *verifBootNode) Status() etcdRaft.Status                                      { return etcdRaft.Status{} }
func (n *verifBootNode) ReportUnreachable(id uint64)                                  {}
func (n *verifBootNode) ReportSnapshot(id uint64, status etcdRaft.SnapshotStatus)     {}
func (n *verifBootNode) Stop() {
	// a stopped raft node delivers nothing any more
	for {
		select {
		case <-n.readyc:
		default:
			return
		}
	}
}

func verifInstallBootHook() {
	verifBootKinds, verifBootHad, verifBootNodes = nil, nil, nil
	verifrt.Hook("raftnode", func(kind string, cfg *etcdRaft.Config, npeers int) etcdRaft.Node {
		n := &verifBootNode{readyc: make(chan etcdRaft.Ready, 32)}
		st := cfg.Storage
		first, _ := st.FirstIndex()
		last, _ := st.LastIndex()
		hs, _, _ := st.InitialState()
		snap, _ := st.Snapshot()
		had := last >= first || !etcdRaft.IsEmptyHardState(hs) || !etcdRaft.IsEmptySnap(snap)
		verifBootKinds = append(verifBootKinds, kind)
		verifBootHad = append(verifBootHad, had)
		verifBootNodes = append(verifBootNodes, n)
		n.idx = last
		if last >= first {
			ents, err := st.Entries(first, last+1, math.MaxUint64)
			if err == nil && len(ents) > 0 {
				n.readyc <- etcdRaft.Ready{CommittedEntries: ents}
			}
		}
		if kind == "StartNode" {
			for i := 0; i < npeers; i++ {
				cc := raftpb.ConfChange{Type: raftpb.ConfChangeAddNode, NodeID: cfg.ID}
				data, _ := cc.Marshal()
				n.commit(raftpb.EntryConfChange, data)
			}
		}
		return n
	})
}

func VerifC14Restart() {
	verifrt.Preemptions(verifrt.Bound("preempt", 0))
	verifrt.SchedDeterministic(verifrt.Bound("det", 1) == 1)
	verifInstallBootHook()
	cfg := &Config{RaftNodeId: 1, DataDir: "/verif-data", Port: "6000"}
	s1 := NewServer(cfg)
	if err := s1.setup(); err != nil {
		verifrt.Assert(false, "first-start-succeeds")
		return
	}
	verifrt.Quiesce()
	ctx := context.Background()
	// an acknowledged catalogue history
	want := map[uuid.UUID]bool{}
	nCreates := verifrt.IntIn("creates", 1, verifrt.Bound("maxcreates", 2))
	var ids []uuid.UUID
	for i := 0; i < nCreates; i++ {
		ds, err := s1.datasetManager.Create(ctx, &pb.Dataset{Dimension: uint32(2 + i), PartitionCount: 1, ReplicationFactor: 1})
		verifrt.Assert(err == nil, "create-acknowledged")
		if err != nil {
			return
		}
		id := uuid.FromBytesOrNil(ds.Meta().GetId())
		ids = append(ids, id)
		want[id] = true
	}
	if verifrt.Bound("nodelete", 0) == 0 && verifrt.Choose("delete-first", 2) == 1 {
		err := s1.datasetManager.Delete(ctx, ids[0])
		verifrt.Assert(err == nil, "delete-acknowledged")
		want[ids[0]] = false
		verifrt.Tag("with-delete")
	}
	verifrt.Quiesce()
	// optionally compact the catalogue log into a snapshot before the restart
	if verifrt.Bound("nosnap", 0) == 0 && verifrt.Choose("snapshot", 2) == 1 {
		err := s1.zeroGroup.VerifTrySnapshot(verifBootNodes[0].idx, 0)
		verifrt.Assert(err == nil, "catalogue-snapshot-succeeds")
		verifrt.Tag("with-snapshot")
	}
	// crash: the first instance stops running
	s1.zeroGroup.VerifCancel()
	verifrt.Quiesce()

	// restart on the same data directory
	s2 := NewServer(&Config{RaftNodeId: 1, DataDir: "/verif-data", Port: "6000"})
	err := s2.setup()
	verifrt.Assert(err == nil, "restart-succeeds")
	if err != nil {
		return
	}
	verifrt.Quiesce()
	verifrt.Reach("restarted")
	list, lerr := s2.datasetManager.List(ctx, false)
	verifrt.Assert(lerr == nil, "list-after-restart")
	n := 0
	for id, present := range want {
		_, gerr := s2.datasetManager.Get(id)
		if present {
			n++
			verifrt.Assert(gerr == nil, "acknowledged-dataset-listed-after-restart")
		} else {
			verifrt.Assert(gerr != nil, "deleted-dataset-stays-deleted-after-restart")
		}
	}
	verifrt.Assert(len(list) == n, "catalogue-size-after-restart")
	verifrt.Reach("end")
}

// VerifC05Boot: start vs restart of the raft node. Whatever node-id list the
// callers compute (Server.getZeroNodeIds, partition.loadRaft from the
// allocator), a group whose log store already holds durable state must be
// restarted from it (RestartNode), never bootstrapped again (StartNode appends
// the bootstrap membership entries to the existing log); a fresh group with
// peers is bootstrapped.
func VerifC05Boot() {
	verifrt.Preemptions(0)
	verifrt.SchedDeterministic(true)
	verifInstallBootHook()
	join := verifrt.Choose("config", 3) // 0: bootstrap node, 1: DoNotJoinCluster, 2: node that joined via JoinNodes
	mk := func() *Config {
		c := &Config{RaftNodeId: 1, DataDir: "/verif-data", Port: "6000"}
		switch join {
		case 1:
			c.DoNotJoinCluster = true
		case 2:
			c.JoinNodes = []string{"peer:1"}
		}
		return c
	}
	s1 := NewServer(mk())
	if err := s1.setup(); err != nil {
		verifrt.Assert(false, "first-start-succeeds")
		return
	}
	verifrt.Quiesce()
	if join == 0 {
		// a dataset whose partition lives on this node: its raft group is loaded by the allocator
		_, err := s1.datasetManager.Create(context.Background(), &pb.Dataset{Dimension: 2, PartitionCount: 1, ReplicationFactor: 1})
		verifrt.Assert(err == nil, "create-acknowledged")
		verifrt.Quiesce()
	} else {
		// make the zero group's log durable some other way: a membership entry as delivered after a join
		verifBootNodes[0].ProposeConfChange(context.Background(), raftpb.ConfChange{Type: raftpb.ConfChangeAddNode, NodeID: 1, Context: []byte("n:1")})
		verifrt.Quiesce()
	}
	first := len(verifBootKinds)
	for i := 0; i < first; i++ {
		verifrt.Assert(!verifBootHad[i], "first-start-finds-no-durable-state")
	}
	s1.zeroGroup.VerifCancel()
	verifrt.Quiesce()
	s2 := NewServer(mk())
	if err := s2.setup(); err != nil {
		verifrt.Assert(false, "restart-succeeds")
		return
	}
	verifrt.Quiesce()
	verifrt.Reach("restarted")
	verifrt.Assert(len(verifBootKinds) > first, "restart-constructs-raft-nodes")
	for i := first; i < len(verifBootKinds); i++ {
		if verifBootHad[i] {
			verifrt.Assert(verifBootKinds[i] == "RestartNode", "group-with-durable-state-is-restarted-not-bootstrapped")
		}
	}
	verifrt.Reach("boot-end")
}

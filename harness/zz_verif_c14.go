//go:build verif

package anndb

import (
	"context"
	"math"

	pb "github.com/marekgalovic/anndb/protobuf"

	etcdRaft "github.com/coreos/etcd/raft"
	"github.com/coreos/etcd/raft/raftpb"
	uuid "github.com/satori/go.uuid"

	"github.com/marekgalovic/anndb/verifrt"
)

// Harness for C14 (restart clause) and C05 (start vs restart): the real
// Server.setup wiring is executed twice on the same data directory. The etcd
// raft node is a harness node (verifrt.Hook) that behaves like a one-member
// group: every proposal commits at once, a (re)started node re-delivers the
// stored entries after the snapshot as committed, and StartNode appends the
// initial membership entry like raft's bootstrap does. Sockets and the gRPC
// server are stubs.

type verifBootNode struct {
	readyc chan etcdRaft.Ready
	idx    uint64
}

var (
	verifBootKinds []string // "StartNode"/"RestartNode" per node construction, in order
	verifBootHad   []bool   // whether durable state existed at that construction
	verifBootNodes []*verifBootNode
)

func (n *verifBootNode) commit(t raftpb.EntryType, data []byte) {
	n.idx++
	e := raftpb.Entry{Type: t, Index: n.idx, Term: 1, Data: data}
	n.readyc <- etcdRaft.Ready{
		HardState:        raftpb.HardState{Term: 1, Vote: 1, Commit: n.idx},
		Entries:          []raftpb.Entry{e},
		CommittedEntries: []raftpb.Entry{e},
	}
}
func (n *verifBootNode) Tick()                              {}
func (n *verifBootNode) Campaign(ctx context.Context) error { return nil }
func (n *verifBootNode) Propose(ctx context.Context, data []byte) error {
	n.commit(raftpb.EntryNormal, data)
	return nil
}
func (n *verifBootNode) ProposeConfChange(ctx context.Context, cc raftpb.ConfChange) error {
	data, err := cc.Marshal()
	if err != nil {
		return err
	}
	n.commit(raftpb.EntryConfChange, data)
	return nil
}
func (n *verifBootNode) Step(ctx context.Context, msg raftpb.Message) error { return nil }
func (n *verifBootNode) Ready() <-chan etcdRaft.Ready                       { return n.readyc }
func (n *verifBootNode) Advance()                                           {}
func (n *verifBootNode) ApplyConfChange(cc raftpb.ConfChange) *raftpb.ConfState {
	return &raftpb.ConfState{Nodes: []uint64{1}}
}
func (n *verifBootNode) TransferLeadership(ctx context.Context, lead, transferee uint64) {}
func (n *verifBootNode) ReadIndex(ctx context.Context, rctx []byte) error             { return nil }
func (n *verifBootNode) Status() etcdRaft.Status                                      { return etcdRaft.Status{} }
func (n *verifBootNode) ReportUnreachable(id uint64)                                  {}
func (n *verifBootNode) ReportSnapshot(id uint64, status etcdRaft.SnapshotStatus)     {}
func (n *verifBootNode) Stop() {
	// a stopped raft node delivers nothing any more
	for {
		select {
		case <-n.readyc:
		default:
			return
		}
	}
}

func verifInstallBootHook() {
	verifBootKinds, verifBootHad, verifBootNodes = nil, nil, nil
	verifrt.Hook("raftnode", verifNewBootNode)
}

// verifNewBootNode: a one-member raft group over the given store (see the
// comment at the top of this file).
func verifNewBootNode(kind string, cfg *etcdRaft.Config, npeers int) etcdRaft.Node {
	{
		n := &verifBootNode{readyc: make(chan etcdRaft.Ready, 32)}
		st := cfg.Storage
		first, _ := st.FirstIndex()
		last, _ := st.LastIndex()
		hs, _, _ := st.InitialState()
		snap, _ := st.Snapshot()
		had := last >= first || !etcdRaft.IsEmptyHardState(hs) || !etcdRaft.IsEmptySnap(snap)
		verifBootKinds = append(verifBootKinds, kind)
		verifBootHad = append(verifBootHad, had)
		verifBootNodes = append(verifBootNodes, n)
		n.idx = last
		if last >= first {
			ents, err := st.Entries(first, last+1, math.MaxUint64)
			if err == nil && len(ents) > 0 {
				n.readyc <- etcdRaft.Ready{CommittedEntries: ents}
			}
		}
		if kind == "StartNode" {
			for i := 0; i < npeers; i++ {
				cc := raftpb.ConfChange{Type: raftpb.ConfChangeAddNode, NodeID: cfg.ID}
				data, _ := cc.Marshal()
				n.commit(raftpb.EntryConfChange, data)
			}
		}
		return n
	}
}

func VerifC14Restart() {
	verifrt.Preemptions(verifrt.Bound("preempt", 0))
	verifrt.SchedDeterministic(verifrt.Bound("det", 1) == 1)
	verifInstallBootHook()
	cfg := &Config{RaftNodeId: 1, DataDir: "/verif-data", Port: "6000"}
	s1 := NewServer(cfg)
	if err := s1.setup(); err != nil {
		verifrt.Assert(false, "first-start-succeeds")
		return
	}
	verifrt.Quiesce()
	ctx := context.Background()
	// an acknowledged catalogue history
	want := map[uuid.UUID]bool{}
	nCreates := verifrt.IntIn("creates", 1, verifrt.Bound("maxcreates", 2))
	var ids []uuid.UUID
	for i := 0; i < nCreates; i++ {
		ds, err := s1.datasetManager.Create(ctx, &pb.Dataset{Dimension: uint32(2 + i), PartitionCount: 1, ReplicationFactor: 1})
		verifrt.Assert(err == nil, "create-acknowledged")
		if err != nil {
			return
		}
		id := uuid.FromBytesOrNil(ds.Meta().GetId())
		ids = append(ids, id)
		want[id] = true
	}
	if verifrt.Bound("nodelete", 0) == 0 && verifrt.Choose("delete-first", 2) == 1 {
		err := s1.datasetManager.Delete(ctx, ids[0])
		verifrt.Assert(err == nil, "delete-acknowledged")
		want[ids[0]] = false
		verifrt.Tag("with-delete")
	}
	verifrt.Quiesce()
	// optionally compact the catalogue log into a snapshot before the restart
	if verifrt.Bound("nosnap", 0) == 0 && verifrt.Choose("snapshot", 2) == 1 {
		err := s1.zeroGroup.VerifTrySnapshot(verifBootNodes[0].idx, 0)
		verifrt.Assert(err == nil, "catalogue-snapshot-succeeds")
		verifrt.Tag("with-snapshot")
	}
	// crash: the first instance stops running
	s1.zeroGroup.VerifCancel()
	verifrt.Quiesce()

	// restart on the same data directory
	s2 := NewServer(&Config{RaftNodeId: 1, DataDir: "/verif-data", Port: "6000"})
	err := s2.setup()
	verifrt.Assert(err == nil, "restart-succeeds")
	if err != nil {
		return
	}
	verifrt.Quiesce()
	verifrt.Reach("restarted")
	list, lerr := s2.datasetManager.List(ctx, false)
	verifrt.Assert(lerr == nil, "list-after-restart")
	n := 0
	for id, present := range want {
		_, gerr := s2.datasetManager.Get(id)
		if present {
			n++
			verifrt.Assert(gerr == nil, "acknowledged-dataset-listed-after-restart")
		} else {
			verifrt.Assert(gerr != nil, "deleted-dataset-stays-deleted-after-restart")
		}
	}
	verifrt.Assert(len(list) == n, "catalogue-size-after-restart")
	verifrt.Reach("end")
}

// VerifC05Boot: start vs restart of the raft node. Whatever node-id list the
// callers compute (Server.getZeroNodeIds, partition.loadRaft from the
// allocator), a group whose log store already holds durable state must be
// restarted from it (RestartNode), never bootstrapped again (StartNode appends
// the bootstrap membership entries to the existing log); a fresh group with
// peers is bootstrapped.
func VerifC05Boot() {
	verifrt.Preemptions(0)
	verifrt.SchedDeterministic(true)
	verifInstallBootHook()
	join := verifrt.Choose("config", 3) // 0: bootstrap node, 1: DoNotJoinCluster, 2: node that joined via JoinNodes
	mk := func() *Config {
		c := &Config{RaftNodeId: 1, DataDir: "/verif-data", Port: "6000"}
		switch join {
		case 1:
			c.DoNotJoinCluster = true
		case 2:
			c.JoinNodes = []string{"peer:1"}
		}
		return c
	}
	s1 := NewServer(mk())
	if err := s1.setup(); err != nil {
		verifrt.Assert(false, "first-start-succeeds")
		return
	}
	verifrt.Quiesce()
	if join == 0 {
		// a dataset whose partition lives on this node: its raft group is loaded by the allocator
		_, err := s1.datasetManager.Create(context.Background(), &pb.Dataset{Dimension: 2, PartitionCount: 1, ReplicationFactor: 1})
		verifrt.Assert(err == nil, "create-acknowledged")
		verifrt.Quiesce()
	} else {
		// make the zero group's log durable some other way: a membership entry as delivered after a join
		verifBootNodes[0].ProposeConfChange(context.Background(), raftpb.ConfChange{Type: raftpb.ConfChangeAddNode, NodeID: 1, Context: []byte("n:1")})
		verifrt.Quiesce()
	}
	first := len(verifBootKinds)
	for i := 0; i < first; i++ {
		verifrt.Assert(!verifBootHad[i], "first-start-finds-no-durable-state")
	}
	s1.zeroGroup.VerifCancel()
	verifrt.Quiesce()
	s2 := NewServer(mk())
	if err := s2.setup(); err != nil {
		verifrt.Assert(false, "restart-succeeds")
		return
	}
	verifrt.Quiesce()
	verifrt.Reach("restarted")
	verifrt.Assert(len(verifBootKinds) > first, "restart-constructs-raft-nodes")
	for i := first; i < len(verifBootKinds); i++ {
		if verifBootHad[i] {
			verifrt.Assert(verifBootKinds[i] == "RestartNode", "group-with-durable-state-is-restarted-not-bootstrapped")
		}
	}
	verifrt.Reach("boot-end")
}

// VerifC20Restart: the restart clause of C20 on one member: after joins and
// removals were applied, a restart that replays the membership log, or
// restores a compacted snapshot of it, recovers the same member list with the
// same addresses. The member lives `lives` times on one data directory; in
// each life it applies up to `maxchanges` joins (each optionally followed by
// the removal of that node), optionally compacts the zero group's log after
// any change, and is then stopped.
func VerifC20Restart() {
	verifrt.Preemptions(0)
	verifrt.SchedDeterministic(true)
	verifInstallBootHook()
	cfg := func() *Config { return &Config{RaftNodeId: 1, DataDir: "/verif-data", Port: "6000"} }
	want := map[uint64]string{}
	same := func(got map[uint64]string) bool {
		if len(got) != len(want) {
			return false
		}
		for id, addr := range want {
			if got[id] != addr {
				return false
			}
		}
		return true
	}
	lives := verifrt.Bound("lives", 2)
	maxchanges := verifrt.Bound("maxchanges", 2)
	next := uint64(2)
	compacted := false
	for life := 0; life < lives; life++ {
		s := NewServer(cfg())
		if err := s.setup(); err != nil {
			verifrt.Assert(false, "start-succeeds")
			return
		}
		verifrt.Quiesce()
		zero := verifBootNodes[len(verifBootNodes)-1]
		if life == 0 {
			for id, addr := range s.clusterConn.Nodes() {
				want[id] = addr
			}
		} else {
			verifrt.Reach("restarted")
			if compacted {
				verifrt.Tag("after-compaction")
			}
			verifrt.Assert(same(s.clusterConn.Nodes()), "restart-recovers-the-same-member-list-and-addresses")
		}
		if life == lives-1 {
			break
		}
		n := verifrt.IntIn("membership-changes", 0, maxchanges)
		for i := 0; i < n; i++ {
			id := next
			next++
			addr := "peer" + string(rune('0'+id)) + ":7000"
			_, err := s.nodesManager.AddNode(id, addr)
			verifrt.Assert(err == nil, "join-accepted")
			want[id] = addr
			verifrt.Quiesce()
			if verifrt.Choose("then-remove", 2) == 1 {
				verifrt.Assert(s.nodesManager.RemoveNode(id) == nil, "removal-accepted")
				delete(want, id)
				verifrt.Quiesce()
			}
			verifrt.Assert(same(s.clusterConn.Nodes()), "member-list-reflects-acknowledged-changes")
			if verifrt.Choose("compact", 2) == 1 {
				err := s.zeroGroup.VerifTrySnapshot(zero.idx, 0)
				verifrt.Assert(err == nil, "membership-log-compaction-succeeds")
				compacted = true
			}
		}
		s.zeroGroup.VerifCancel()
		verifrt.Quiesce()
	}
	verifrt.Reach("end")
}

// VerifC20Install: the snapshot a member produces for the zero group, when
// installed on another member (a follower that fell behind the compacted
// log), teaches it every listed peer with the announced address.
func VerifC20Install() {
	verifrt.Preemptions(0)
	verifrt.SchedDeterministic(true)
	verifInstallBootHook()
	s1 := NewServer(&Config{RaftNodeId: 1, DataDir: "/verif-data-a", Port: "6000"})
	if err := s1.setup(); err != nil {
		verifrt.Assert(false, "start-succeeds")
		return
	}
	verifrt.Quiesce()
	n := verifrt.IntIn("joins", 1, verifrt.Bound("maxchanges", 3))
	removed := map[uint64]bool{}
	for i := 0; i < n; i++ {
		id := uint64(2 + i)
		_, err := s1.nodesManager.AddNode(id, "peer"+string(rune('0'+id))+":7000")
		verifrt.Assert(err == nil, "join-accepted")
		verifrt.Quiesce()
		if id != 2 && verifrt.Choose("then-remove", 2) == 1 {
			verifrt.Assert(s1.nodesManager.RemoveNode(id) == nil, "removal-accepted")
			removed[id] = true
			verifrt.Quiesce()
		}
	}
	want := s1.clusterConn.Nodes()
	data, err := s1.zeroGroup.VerifSnapshot()
	verifrt.Assert(err == nil, "snapshot-succeeds")
	// node 2 starts with an empty address book and receives the snapshot
	s2 := NewServer(&Config{RaftNodeId: 2, DataDir: "/verif-data-b", Port: "7000"})
	if err := s2.setup(); err != nil {
		verifrt.Assert(false, "start-succeeds")
		return
	}
	verifrt.Quiesce()
	verifrt.Assert(s2.zeroGroup.VerifProcessSnapshot(data) == nil, "snapshot-install-succeeds")
	got := s2.clusterConn.Nodes()
	ok := true
	for id, addr := range want {
		if id == 2 {
			continue // its own address comes from its configuration
		}
		if got[id] != addr {
			ok = false
		}
	}
	for id := range removed {
		if _, listed := got[id]; listed {
			ok = false
		}
	}
	verifrt.Reach("installed")
	verifrt.Assert(ok, "installed-snapshot-lists-every-member-with-its-address")
}

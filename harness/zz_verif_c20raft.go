//go:build verif

package anndb

import (
	"context"
	"io"
	"time"

	pb "github.com/marekgalovic/anndb/protobuf"
	"github.com/marekgalovic/anndb/services"

	"google.golang.org/grpc"
	"google.golang.org/grpc/metadata"

	"github.com/marekgalovic/anndb/verifrt"
)

// Harness for C20 (and the membership half of C14) with the REAL etcd/raft:
// 2-3 real Servers (Server.setup / JoinCluster, NodesManager, the gRPC AddNode
// handler and client stub, zero-group ready loops over real etcd raft nodes and
// real badgerWALs) in one address space. gRPC is an in-memory transport:
// grpc.Dial(":<port>") reaches the Server listening there; the AddNode stream
// is served by the member's real handler; RaftTransport.Receive calls are
// handed to the destination's real Receive handler, and - within a fault
// budget - lost (with or without an error for the sender) or duplicated. Time
// is driven by the harness (Tick on every live member's zero group per round,
// then everything runs until all goroutines block).
//
// History: member 1 bootstraps and elects itself; members 2..N join one after
// the other through any earlier member (a follower forwards the proposal); the
// leader may crash (stop without notice) right after it acknowledged a join -
// i.e. after the AddNode handler returned and the joiner recorded the answer -
// and restart later; the last member may be removed; the leader may compact
// its membership log; any member may restart. After the faults stop and enough
// rounds, every live member of the configuration must list exactly the
// acknowledged members with the addresses they announced.

type verifC20RaftNet struct {
	servers map[string]*Server
	faults  int
	armed   bool
	sent    int
	// process tag of the server at an address (verifrt.SetProcess): request handlers
	// run in the destination's process, not in the caller's
	procs map[string]int
}

func verifC20RaftInstall(faults int) *verifC20RaftNet {
	v := &verifC20RaftNet{servers: map[string]*Server{}, faults: faults, procs: map[string]int{}}
	draws := 0
	verifrt.Hook("raft-rand", func(n int) int {
		draws++
		return (draws * 4) % n
	})
	verifrt.Hook("grpc-dial", func(target string) bool {
		// dialling is lazy in gRPC: it succeeds whether or not the peer is up
		return true
	})
	verifrt.Hook("grpc-stream", func(target, method string) (grpc.ClientStream, error) {
		s := v.servers[target]
		if s == nil || method != "/anndb_pb.NodesManager/AddNode" {
			return nil, io.ErrClosedPipe
		}
		return &verifLiveAddNodeStream{srv: services.NewNodesManagerServer(s.nodesManager), msgs: make(chan *pb.Node, 16), done: make(chan struct{}), proc: v.procs[target]}, nil
	})
	verifrt.Hook("grpc-invoke", func(target, method string, in, out interface{}) error {
		if method != "/anndb_pb.RaftTransport/Receive" {
			return io.ErrClosedPipe
		}
		v.sent++
		action := 0
		if v.armed && v.faults > 0 {
			action = verifrt.Choose("net", verifrt.Bound("netactions", 4))
			if action != 0 {
				v.faults--
				verifrt.Tag("net-fault")
			}
		}
		s := v.servers[target]
		if s == nil && verifrt.Bound("dbg", 0) == 1 {
			verifrt.Trace("no-server-at", target)
		}
		if s == nil || action == 1 {
			return context.DeadlineExceeded // peer down / message lost, the sender sees an error
		}
		if action == 2 {
			return nil // lost silently
		}
		// the server runs the handler on its own goroutine; the caller's 500 ms deadline
		// ends the call for the caller when the handler is stuck (e.g. a forwarded
		// proposal waiting for a leader on the destination)
		t := s.zeroGroup.VerifTransport()
		deliver := func() error {
			done := make(chan error, 1)
			proc := v.procs[target]
			go func() {
				verifrt.SetProcess(proc)
				_, err := t.Receive(context.Background(), in.(*pb.RaftMessage))
				done <- err
			}()
			select {
			case err := <-done:
				return err
			case <-time.After(500 * time.Millisecond):
				return context.DeadlineExceeded
			}
		}
		if err := deliver(); err != nil {
			return err
		}
		if action == 3 {
			deliver() // duplicated
		}
		return nil
	})
	return v
}

// verifLiveAddNodeStream: the AddNode stream with the handler running on its
// own goroutine, as a gRPC server runs it: what the handler sends reaches the
// joiner while the handler is still blocked in its proposal.
type verifLiveAddNodeStream struct {
	srv  pb.NodesManagerServer
	req  *pb.Node
	msgs chan *pb.Node
	done chan struct{}
	err  error
	proc int
}

func (s *verifLiveAddNodeStream) Header() (metadata.MD, error) { return nil, nil }
func (s *verifLiveAddNodeStream) Trailer() metadata.MD         { return nil }
func (s *verifLiveAddNodeStream) Context() context.Context     { return context.Background() }
func (s *verifLiveAddNodeStream) SendMsg(m interface{}) error {
	s.req = m.(*pb.Node)
	return nil
}
func (s *verifLiveAddNodeStream) CloseSend() error {
	go func() {
		verifrt.SetProcess(s.proc)
		s.err = s.srv.AddNode(s.req, &verifLiveAddNodeServerStream{s})
		close(s.done)
	}()
	return nil
}
func (s *verifLiveAddNodeStream) RecvMsg(m interface{}) error {
	select {
	case n := <-s.msgs:
		*(m.(*pb.Node)) = *n
		return nil
	default:
	}
	select {
	case n := <-s.msgs:
		*(m.(*pb.Node)) = *n
		return nil
	case <-s.done:
		select {
		case n := <-s.msgs:
			*(m.(*pb.Node)) = *n
			return nil
		default:
		}
		if s.err != nil {
			return s.err
		}
		return io.EOF
	}
}

type verifLiveAddNodeServerStream struct{ c *verifLiveAddNodeStream }

func (s *verifLiveAddNodeServerStream) SetHeader(metadata.MD) error  { return nil }
func (s *verifLiveAddNodeServerStream) SendHeader(metadata.MD) error { return nil }
func (s *verifLiveAddNodeServerStream) SetTrailer(metadata.MD)       {}
func (s *verifLiveAddNodeServerStream) Context() context.Context     { return context.Background() }
func (s *verifLiveAddNodeServerStream) SendMsg(m interface{}) error  { return s.Send(m.(*pb.Node)) }
func (s *verifLiveAddNodeServerStream) RecvMsg(m interface{}) error  { return io.EOF }
func (s *verifLiveAddNodeServerStream) Send(n *pb.Node) error {
	s.c.msgs <- n
	return nil
}

func VerifC20Raft() {
	verifrt.Preemptions(0)
	verifrt.SchedDeterministic(true)
	v := verifC20RaftInstall(verifrt.Bound("faults", 0))
	members := verifrt.Bound("members", 2)
	port := func(id uint64) string { return string(rune('5'+id)) + "000" }
	addr := func(id uint64) string { return ":" + port(id) }
	mkcfg := func(id uint64, via uint64) *Config {
		c := &Config{RaftNodeId: id, DataDir: "/verif-c20r-" + string(rune('a'+id)), Port: port(id)}
		if via != 0 {
			c.JoinNodes = []string{addr(via)}
		}
		return c
	}
	cfgs := map[uint64]*Config{}
	live := map[uint64]*Server{}
	vclock := verifrt.Bound("vclock", 0) == 1
	round := func() {
		if vclock {
			// virtual time: every ticker and every deadline of every group on every member fires when due
			verifrt.AdvanceTime(100 * time.Millisecond)
			return
		}
		for id := uint64(1); id <= uint64(members); id++ {
			if s := live[id]; s != nil {
				s.zeroGroup.VerifTick()
			}
		}
		verifrt.Quiesce()
		// callers stuck in an RPC whose handler cannot finish get their deadline
		for k := 0; k < 8 && verifrt.FireTimer(); k++ {
			verifrt.Quiesce()
		}
	}
	dbgstate := func(what string) {
		if verifrt.Bound("dbg", 0) != 1 {
			return
		}
		line := what + ":"
		for id := uint64(1); id <= uint64(members); id++ {
			s := live[id]
			if s == nil {
				line += " [" + string(rune('0'+id)) + " down]"
				continue
			}
			line += " [" + string(rune('0'+id))
			if s.zeroGroup.VerifIsLeader() {
				line += " LEAD"
			}
			line += " t" + string(rune('0'+s.zeroGroup.VerifTerm()%10)) + " applied" + string(rune('0'+s.zeroGroup.VerifApplied()%10)) + " book"
			for nid := range s.clusterConn.Nodes() {
				line += string(rune('0' + nid))
			}
			line += "]"
		}
		verifrt.Trace("state", line)
	}
	rounds := func(n int) {
		for i := 0; i < n; i++ {
			round()
		}
	}
	leader := func() uint64 {
		var lead uint64
		var term uint64
		for id, s := range live {
			if s.zeroGroup.VerifIsLeader() && s.zeroGroup.VerifTerm() >= term {
				lead, term = id, s.zeroGroup.VerifTerm()
			}
		}
		return lead
	}
	waitLeader := func(max int) uint64 {
		for i := 0; i < max; i++ {
			if l := leader(); l != 0 {
				return l
			}
			round()
		}
		return leader()
	}
	start := func(id uint64, c *Config) *Server {
		s := NewServer(c)
		if err := s.setup(); err != nil {
			verifrt.Assert(false, "start-succeeds")
			return nil
		}
		live[id] = s
		v.servers[":"+c.Port] = s
		verifrt.Quiesce()
		return s
	}
	stop := func(id uint64) {
		s := live[id]
		s.zeroGroup.Stop()
		delete(live, id)
		delete(v.servers, ":"+s.config.Port)
		verifrt.Quiesce()
	}
	// RPCs that propose (join, removal) block inside raft until a leader takes the
	// proposal; time has to pass meanwhile
	async := func(f func() error) (error, bool) {
		var err error
		done := false
		go func() {
			err = f()
			done = true
		}()
		verifrt.Quiesce()
		for k := 0; k < verifrt.Bound("rpcrounds", 60) && !done; k++ {
			round()
		}
		return err, done
	}
	want := map[uint64]string{1: addr(1)}
	cfgs[1] = mkcfg(1, 0)
	if start(1, cfgs[1]) == nil {
		return
	}
	if waitLeader(40) == 0 {
		verifrt.Assert(false, "the-bootstrap-member-elects-itself")
		return
	}
	v.armed = true
	crashBudget := verifrt.Bound("leadercrash", 0)
	var crashedLeader uint64
	for id := uint64(2); id <= uint64(members); id++ {
		via := uint64(1)
		if id > 2 {
			via = uint64(verifrt.IntIn("join-via", 1, int(id)-1))
		}
		if live[via] == nil {
			via = leader()
		}
		if via == 0 || live[via] == nil {
			break // nobody to join through
		}
		cfgs[id] = mkcfg(id, via)
		s := start(id, cfgs[id])
		if s == nil {
			return
		}
		err, answered := async(s.JoinCluster)
		if !answered {
			// the member asked cannot get the proposal to a leader: the join is not acknowledged
			verifrt.Tag("join-unanswered")
			verifrt.Reach("end")
			return
		}
		verifrt.Assert(err == nil, "join-acknowledged")
		if err != nil {
			return
		}
		want[id] = addr(id)
		dbgstate("join-acked")
		// the member that took the join may die right after acknowledging it
		if crashBudget > 0 && crashedLeader == 0 && verifrt.Choose("leader-dies-after-ack", 2) == 1 {
			crashBudget--
			crashedLeader = leader()
			if crashedLeader != 0 {
				stop(crashedLeader)
				verifrt.Tag("leader-crashed-after-ack")
			}
		} else {
			verifrt.Quiesce()
		}
		rounds(verifrt.Bound("joinrounds", 4))
		if crashedLeader != 0 && live[crashedLeader] == nil && verifrt.Choose("restart-now", 2) == 1 {
			c := cfgs[crashedLeader]
			if start(crashedLeader, c) == nil {
				return
			}
			verifrt.Tag("leader-restarted")
		}
		if verifrt.Bound("compact", 0) == 1 && verifrt.Choose("compact", 2) == 1 {
			if l := leader(); l != 0 {
				g := live[l].zeroGroup
				g.VerifTrySnapshot(g.VerifApplied(), 0)
				verifrt.Tag("compacted")
			}
		}
	}
	if members >= 3 && verifrt.Bound("removal", 1) == 1 && verifrt.Choose("remove-last", 2) == 1 {
		id := uint64(members)
		// optionally another member is down while the removal happens, so that its log
		// lags behind the removal when it comes back
		var lagging uint64
		if verifrt.Bound("rejoin", 0) == 1 && verifrt.Choose("member-down-during-removal", 2) == 1 {
			if l := waitLeader(60); l != 0 {
				for m := uint64(1); m < id; m++ {
					if m != l && live[m] != nil {
						lagging = m
						break
					}
				}
			}
			if lagging != 0 {
				stop(lagging)
				verifrt.Tag("member-down-during-removal")
			}
		}
		if l := waitLeader(60); l != 0 && l != id {
			rerr, answered := async(func() error { return live[l].nodesManager.RemoveNode(id) })
			if !answered || rerr != nil {
				verifrt.Reach("end")
				return
			}
			delete(want, id)
			dbgstate("removal-acked")
			rounds(6)
			if live[id] != nil {
				stop(id)
			}
			verifrt.Tag("after-removal")
			if verifrt.Bound("rejoin", 0) == 1 && verifrt.Choose("removed-member-rejoins", 2) == 1 {
				// the removed member comes back with its original command line and joins again,
				// through the member that was down (it has not caught up yet) or through the leader
				via := l
				if lagging != 0 {
					if start(lagging, cfgs[lagging]) == nil {
						return
					}
					via = lagging
					lagging = 0
				}
				cfgs[id] = mkcfg(id, via)
				s := start(id, cfgs[id])
				if s == nil {
					return
				}
				jerr, answered := async(s.JoinCluster)
				if answered && jerr == nil {
					want[id] = addr(id)
					verifrt.Tag("rejoined-after-removal")
				} else {
					stop(id)
				}
			}
		}
		if lagging != 0 {
			if start(lagging, cfgs[lagging]) == nil {
				return
			}
		}
	}
	dbgstate("joined")
	verifrt.Reach("joined")
	// the faults stop; whoever is down comes back
	v.armed = false
	v.faults = 0
	if crashedLeader != 0 && live[crashedLeader] == nil {
		if start(crashedLeader, cfgs[crashedLeader]) == nil {
			return
		}
		verifrt.Tag("leader-restarted")
	}
	// optional restart of one member
	rid := uint64(verifrt.IntIn("restart-member", 0, members))
	if _, ok := live[rid]; ok && verifrt.Bound("readdr", 0) == 1 && len(cfgs[rid].JoinNodes) > 0 && verifrt.Choose("restart-at-new-address", 2) == 1 {
		// the member comes back on the same data directory but under another address and
		// joins again: IF that join is acknowledged, everybody has to list the new address
		if _, member := want[rid]; member {
			stop(rid)
			rounds(2)
			moved := *cfgs[rid]
			moved.Port = port(rid)[:3] + "1"
			s := start(rid, &moved)
			if s == nil {
				return
			}
			jerr, answered := async(s.JoinCluster)
			if answered && jerr == nil {
				want[rid] = ":" + moved.Port
				cfgs[rid] = &moved
				verifrt.Tag("rejoined-at-new-address")
			} else {
				// refused (nothing was acknowledged): the operator goes back to the old address
				verifrt.Tag("new-address-refused")
				stop(rid)
				if start(rid, cfgs[rid]) == nil {
					return
				}
				async(live[rid].JoinCluster)
			}
			verifrt.Reach("restarted")
		}
	} else if ok {
		if _, member := want[rid]; member {
			stop(rid)
			rounds(2)
			if start(rid, cfgs[rid]) == nil {
				return
			}
			if len(cfgs[rid].JoinNodes) > 0 {
				// the original command line: the join handshake runs again
				s := live[rid]
				async(s.JoinCluster)
			}
			verifrt.Reach("restarted")
		}
	}
	// settle: enough rounds for an election and for every entry to reach everyone
	settled := false
	for k := 0; k < verifrt.Bound("settlerounds", 80) && !settled; k++ {
		round()
		settled = leader() != 0
		for id, s := range live {
			if _, member := want[id]; !member {
				continue
			}
			if !verifSameBook(s.clusterConn.Nodes(), want) {
				settled = false
			}
		}
	}
	dbgstate("final")
	if verifrt.Bound("dbg", 0) == 1 {
		verifrt.Trace("blocked", verifrt.BlockedDesc())
	}
	for id, s := range live {
		if _, member := want[id]; !member {
			continue
		}
		verifrt.Assert(verifSameBook(s.clusterConn.Nodes(), want), "every-member-eventually-lists-the-acknowledged-members-with-their-addresses")
	}
	verifrt.Assert(leader() != 0, "the-cluster-has-a-leader-after-the-faults-stop")
	verifrt.Reach("end")
}

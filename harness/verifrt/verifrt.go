//go:build verif

// Package verifrt is the harness run-time of the /verif machinery. Under the
// gosmt symbolic executor every function below is intercepted (fresh solver
// variables, path constraints, proof obligations). Compiled natively (go test
// -overlay ...) the same functions pop values from a replay vector, so that a
// solver model becomes an ordinary run of the real code.
package verifrt

import (
	"encoding/json"
	"fmt"
	"math/big"
	"os"
	"strconv"
	"strings"
	"sync"
	"time"
)

type rec struct {
	Fn   string `json:"fn"`
	Name string `json:"name"`
	Kind string `json:"kind"`
	Conc string `json:"conc"`
	Val  string `json:"val"`
}

// Exhausted is the panic value raised when the replay vector ends: the
// symbolic path ended there (at its violation), so the native run stops too.
type Exhausted struct{ At string }

type replayFile struct {
	Inputs []rec          `json:"inputs"`
	Bounds map[string]int `json:"bounds"`
}

var (
	loaded  bool
	inputs  []rec
	bounds  map[string]int
	at      int
	failed  []string
	traceLn []string
	covered = map[string]bool{}
)

func load() {
	if loaded {
		return
	}
	loaded = true
	p := os.Getenv("VERIF_REPLAY")
	if p == "" {
		panic("verifrt: VERIF_REPLAY not set (native runs need a replay vector)")
	}
	data, err := os.ReadFile(p)
	if err != nil {
		panic(err)
	}
	var rf replayFile
	if err := json.Unmarshal(data, &rf); err != nil {
		panic(err)
	}
	inputs = rf.Inputs
	bounds = rf.Bounds
}

func next(fn string) rec {
	load()
	// skip entries produced by environment stubs (rand.*) that native code draws itself
	for at < len(inputs) && strings.HasPrefix(inputs[at].Fn, "rand.") {
		at++
	}
	if at >= len(inputs) {
		panic(Exhausted{fn})
	}
	r := inputs[at]
	at++
	if r.Fn != fn {
		panic(fmt.Sprintf("verifrt: replay vector out of step: want %s, vector has %s (%s)", fn, r.Fn, r.Name))
	}
	return r
}

func (r rec) text() string {
	if r.Val != "" {
		return r.Val
	}
	return r.Conc
}

func (r rec) u64() uint64 {
	s := strings.TrimPrefix(r.text(), "0x")
	v, err := strconv.ParseUint(s, 16, 64)
	if err != nil {
		// decimal (enumerated)
		d, err2 := strconv.ParseInt(r.text(), 10, 64)
		if err2 != nil {
			panic("verifrt: bad value " + r.text())
		}
		return uint64(d)
	}
	return v
}

func (r rec) f64() float64 {
	q, ok := new(big.Rat).SetString(r.text())
	if !ok {
		panic("verifrt: bad real " + r.text())
	}
	f, _ := q.Float64()
	return f
}

func Int(name string) int       { return int(next("Int").u64()) }
func Uint64(name string) uint64 { return next("Uint64").u64() }
func Uint32(name string) uint32 { return uint32(next("Uint32").u64()) }
func Uint16(name string) uint16 { return uint16(next("Uint16").u64()) }
func Int32(name string) int32   { return int32(next("Int32").u64()) }
func Byte(name string) byte     { return byte(next("Byte").u64()) }
func SymIntIn(name string, lo, hi int) int {
	return int(next("SymIntIn").u64())
}
func Bool(name string) bool { return next("Bool").text() == "true" }
func IntIn(name string, lo, hi int) int {
	v, _ := strconv.Atoi(next("IntIn").text())
	return v
}
func Choose(name string, n int) int {
	v, _ := strconv.Atoi(next("Choose").text())
	return v
}
func F32Grid(name string, lo, hi int) float32 { return float32(next("F32Grid").f64()) }
func F32Order(name string) float32            { return float32(next("F32Order").f64()) }

func Assume(c bool) {
	if !c {
		panic("verifrt: assumption violated in replay")
	}
}

func Assert(c bool, label string) {
	if !c {
		failed = append(failed, label)
		fmt.Println("VERIF-ASSERT-FAILED " + label)
	}
}
func Cover(c bool, label string) {
	if c {
		covered[label] = true
	}
}

// Covered reports the cover labels satisfied natively so far (cumulative).
func Covered() map[string]bool { return covered }
func Reach(label string)         {}

func And(a, b bool) bool     { return a && b }
func Or(a, b bool) bool      { return a || b }
func Not(a bool) bool        { return !a }
func Implies(a, b bool) bool { return !a || b }
func IteInt(c bool, a, b int) int {
	if c {
		return a
	}
	return b
}
func B2I(c bool) int {
	if c {
		return 1
	}
	return 0
}

func Trace(label string, v ...interface{}) {
	s := label
	for _, x := range v {
		s += " " + fmt.Sprint(x)
	}
	traceLn = append(traceLn, s)
	fmt.Println("VERIF-TRACE " + s)
}

func Bound(name string, def int) int {
	load()
	if v, ok := bounds[name]; ok {
		return v
	}
	return def
}

func Tag(t string)          {}

// Hook registers a Go function that an environment stub of the symbolic
// executor calls back (no effect natively).
func Hook(name string, fn interface{}) {}
func MapOrder(mode int)     {}
func Preemptions(n int)     {}
func TickLimit(n int)       {}
func TimersNondet(b bool)   {}

// SchedDeterministic(true): the symbolic executor explores one schedule only
// (first enabled goroutine, first ready select case).
func SchedDeterministic(b bool) {}

// AtomicSwitch(true): sync/atomic operations become scheduling points of the
// symbolic executor (by default only blocking operations, lock acquisitions,
// channel operations and go statements are).
func AtomicSwitch(b bool) {}
func Concretize(x int) int  { return x }
func IsSymbolicRun() bool   { return false }
func Yield()                {}
func Quiesce() int          { return 0 }
func BlockedDesc() string   { return "" }
func FireTimer() bool       { return false }
func Failed() []string      { return failed }

// Reset prepares the next native replay (new vector from path p).
func Reset(p string) {
	os.Setenv("VERIF_REPLAY", p)
	loaded, inputs, bounds, at, failed, traceLn = false, nil, nil, 0, nil, nil
}
func TraceLines() []string  { return traceLn }

// RaceDetect(true): the symbolic executor keeps vector clocks for the
// interpreted goroutines and reports two accesses to one memory cell (at least
// one write, at least one not through sync/atomic) that no happens-before edge
// orders, on every explored schedule. No-op natively (the replay is built with
// the Go race detector instead).
func RaceDetect(b bool) {}

// HarnessLock/HarnessUnlock protect the harness' own recording objects (fake
// clients, counters) that the code under test calls from several goroutines.
// Natively one global mutex; in the symbolic executor an acquire/release pair
// for the race detection that is neither a scheduling point nor blocking.
var harnessMu sync.Mutex

func HarnessLock()   { harnessMu.Lock() }
func HarnessUnlock() { harnessMu.Unlock() }

// AdvanceTime(d): virtual-clock mode of the symbolic executor: all timers due
// within the next d fire in due-time order, each followed by a run of all other
// goroutines until they block. Natively a sleep.
func AdvanceTime(d time.Duration) int { time.Sleep(d); return 0 }

// TimersRacy(true): pending timers may fire at the executor's scheduling points
// (one preemption each), not only when every goroutine is blocked: a deadline
// that expires while the work it guards is still in progress.
func TimersRacy(b bool) {}

// SetProcess(n): goroutines started while the calling goroutine carries tag n
// belong to process n (inherited transitively). KillProcess(n) stops all of
// them for good - a crashed process; its timers never fire again. Symbolic
// executor only (natively no-ops: a goroutine cannot be killed from outside).
func SetProcess(n int)  {}
func KillProcess(n int) {}

// RandBudget(k): under the symbolic executor only the first k math/rand draws
// of a path are path decisions, the remaining ones a fixed sequence. Natively
// a no-op (the real generator draws).
func RandBudget(k int) {}

//go:build verif

package utils

import (
	uuid "github.com/satori/go.uuid"

	"github.com/marekgalovic/anndb/verifrt"
)

// Harness for C10 (routing function): for every 128-bit id and every
// partition count n in 1..maxN, UuidMod(id, n) is in range and the
// intermediate sum does not wrap. id bytes and n are solver variables.
func VerifC10Mod() {
	var id uuid.UUID
	for i := range id {
		id[i] = verifrt.Byte("id")
	}
	maxN := uint64(verifrt.Bound("maxn", 1024))
	n := verifrt.Uint64("n")
	verifrt.Assume(verifrt.And(n >= 1, n <= maxN))
	r := UuidMod(id, n)
	verifrt.Assert(r < n, "owner-in-range")
	verifrt.Reach("mod-done")

	// the shard selector of the index uses the same function with n = 16
	r16 := UuidMod(id, 16)
	verifrt.Assert(r16 < 16, "shard-in-range")

	// determinism / function of (id,n) only: a second evaluation on an equal id
	var id2 uuid.UUID
	for i := range id2 {
		id2[i] = verifrt.Byte("id2")
	}
	same := true
	for i := range id {
		same = verifrt.And(same, id[i] == id2[i])
	}
	r2 := UuidMod(id2, n)
	verifrt.Assert(verifrt.Implies(same, r == r2), "equal-ids-same-owner")
}

//go:build verif

package utils

import "github.com/marekgalovic/anndb/verifrt"

// Harness for C19: priority queues pop in order; reversing yields an
// independent queue. Priorities are symbolic (only compared), the operation
// sequence is a path decision, the oracle is a multiset kept by the harness.

type c19Model struct {
	prio []float32
	tag  []int
	live []bool
}

func (m *c19Model) add(p float32, tag int) {
	m.prio = append(m.prio, p)
	m.tag = append(m.tag, tag)
	m.live = append(m.live, true)
}

func (m *c19Model) count() int {
	n := 0
	for _, l := range m.live {
		if l {
			n++
		}
	}
	return n
}

func (m *c19Model) clone() *c19Model {
	c := &c19Model{}
	c.prio = append(c.prio, m.prio...)
	c.tag = append(c.tag, m.tag...)
	c.live = append(c.live, m.live...)
	return c
}

// checkExtreme asserts that item (tag,prio) is in the model, has the model's
// priority, and is extreme (min or max) among live items.
func (m *c19Model) checkExtreme(item *PriorityQueueItem, isMin bool, what string) int {
	tag := item.Value().(int)
	verifrt.Assert(tag >= 0 && tag < len(m.tag) && m.live[tag], what+"-returns-live-item")
	if !(tag >= 0 && tag < len(m.tag) && m.live[tag]) {
		return -1
	}
	verifrt.Assert(item.Priority() == m.prio[tag], what+"-priority-matches")
	ok := true
	for i := range m.prio {
		if !m.live[i] {
			continue
		}
		if isMin {
			ok = verifrt.And(ok, item.Priority() <= m.prio[i])
		} else {
			ok = verifrt.And(ok, item.Priority() >= m.prio[i])
		}
	}
	verifrt.Assert(ok, what+"-is-extreme")
	return tag
}

type c19Queue struct {
	q     PriorityQueue
	m     *c19Model
	isMin bool
	name  string
}

func (c *c19Queue) step(op int, nextTag *int) {
	switch op {
	case 0: // push
		p := verifrt.F32Order("prio")
		tag := *nextTag
		*nextTag++
		// tags index the model: pad the model of the *other* queue lazily by using a shared tag space
		for len(c.m.prio) < tag {
			c.m.prio = append(c.m.prio, 0)
			c.m.tag = append(c.m.tag, len(c.m.tag))
			c.m.live = append(c.m.live, false)
		}
		c.m.add(p, tag)
		c.q.Push(NewPriorityQueueItem(p, tag))
	case 1: // pop
		if c.m.count() == 0 {
			verifrt.Assert(c.q.Len() == 0, c.name+"-len-zero-when-empty")
			return
		}
		it := c.q.Pop()
		tag := c.m.checkExtreme(it, c.isMin, c.name+"-pop")
		if tag >= 0 {
			c.m.live[tag] = false
		}
	case 2: // peek
		if c.m.count() == 0 {
			return
		}
		it := c.q.Peek()
		c.m.checkExtreme(it, c.isMin, c.name+"-peek")
	}
	verifrt.Assert(c.q.Len() == c.m.count(), c.name+"-len-equals-model")
}

func (c *c19Queue) drain() {
	for c.m.count() > 0 {
		verifrt.Assert(c.q.Len() == c.m.count(), c.name+"-drain-len")
		if c.q.Len() == 0 {
			return
		}
		it := c.q.Pop()
		tag := c.m.checkExtreme(it, c.isMin, c.name+"-drain")
		if tag < 0 {
			return
		}
		c.m.live[tag] = false
	}
	verifrt.Assert(c.q.Len() == 0, c.name+"-empty-after-drain")
}

func VerifC19() {
	L := verifrt.Bound("ops", 4)
	opset := verifrt.Bound("opset", 0)
	isMin := verifrt.Choose("kind", 2) == 0
	var q PriorityQueue
	if isMin {
		q = NewMinPriorityQueue()
	} else {
		q = NewMaxPriorityQueue()
	}
	a := &c19Queue{q: q, m: &c19Model{}, isMin: isMin, name: "q"}
	var b *c19Queue
	nextTag := 0
	for i := 0; i < L; i++ {
		// ops: 0 push, 1 pop, 2 peek on q; 3 reverse (once); 4.. same ops on the reversed queue
		nops := 4
		if b != nil {
			nops = 6
		}
		if opset == 1 {
			nops = 2
		}
		op := verifrt.Choose("op", nops)
		if opset == 1 && op > 1 {
			// push/pop-only histories (deeper bound): skip the other operations
			continue
		}
		switch {
		case op <= 2:
			a.step(op, &nextTag)
		case op == 3 && b == nil:
			r := a.q.Reverse()
			b = &c19Queue{q: r, m: a.m.clone(), isMin: !a.isMin, name: "r"}
			verifrt.Assert(r.Len() == b.m.count(), "reverse-same-len")
			verifrt.Reach("reversed")
			verifrt.Tag("after-reverse")
		case op == 3:
			// second reverse not explored: treat as peek on r
			b.step(2, &nextTag)
		case op == 4:
			b.step(0, &nextTag)
		case op == 5:
			b.step(1, &nextTag)
		}
	}
	// finally both queues must drain their own multisets in their own order
	if b != nil && verifrt.Choose("drain-order", 2) == 1 {
		b.drain()
		a.drain()
	} else {
		a.drain()
		if b != nil {
			b.drain()
		}
	}
	verifrt.Reach("end")
}

// VerifC19Long: long histories with priorities constrained to one of a few
// order shapes (ascending, descending, zig-zag), so that every comparison of
// the heap code is decided by the path condition and the whole history is a
// single symbolic path per shape: n pushes (n up to the bound), a drain to a
// quarter, optional Reverse, pushes again, full drain. Covers behaviour that
// depends on the size or capacity of the backing array (growth, shrinking),
// which the short all-histories runs cannot reach.
func VerifC19Long() {
	n := verifrt.Bound("n", 40)
	shape := verifrt.Choose("shape", 3)
	isMin := verifrt.Choose("queue", 2) == 0
	prio := make([]float32, n)
	for i := range prio {
		prio[i] = verifrt.F32Order("p")
	}
	// the order shape as assumptions: all distinct, ranked by `rank`
	rank := make([]int, n)
	for i := range rank {
		switch shape {
		case 0:
			rank[i] = i
		case 1:
			rank[i] = n - 1 - i
		default:
			if i%2 == 0 {
				rank[i] = i / 2
			} else {
				rank[i] = n - 1 - i/2
			}
		}
	}
	byRank := make([]int, n)
	for i, r := range rank {
		byRank[r] = i
	}
	for r := 1; r < n; r++ {
		verifrt.Assume(prio[byRank[r-1]] < prio[byRank[r]])
	}
	var q PriorityQueue
	if isMin {
		q = NewMinPriorityQueue()
	} else {
		q = NewMaxPriorityQueue()
	}
	m := &c19Model{}
	for i := 0; i < n; i++ {
		q.Push(NewPriorityQueueItem(prio[i], i))
		m.add(prio[i], i)
		verifrt.Assert(q.Len() == m.count(), "long-len-after-push")
	}
	drainTo := func(q PriorityQueue, m *c19Model, isMin bool, keep int, what string) {
		for q.Len() > keep {
			before := q.Len()
			item := q.Pop()
			tag := m.checkExtreme(item, isMin, what)
			if tag < 0 {
				return
			}
			m.live[tag] = false
			verifrt.Assert(q.Len() == before-1 && q.Len() == m.count(), what+"-len-drops-by-one")
		}
	}
	drainTo(q, m, isMin, n/4, "long-drain")
	if verifrt.Choose("reverse", 2) == 1 {
		r := q.Reverse()
		rm := m.clone()
		verifrt.Assert(r.Len() == q.Len(), "long-reverse-same-len")
		drainTo(r, rm, !isMin, 0, "long-reversed-drain")
		verifrt.Assert(rm.count() == 0, "long-reversed-holds-exactly-the-items")
	}
	drainTo(q, m, isMin, 0, "long-final-drain")
	verifrt.Assert(m.count() == 0 && q.Len() == 0, "long-queue-holds-exactly-pushed-minus-popped")
	verifrt.Reach("long-end")
}

//go:build verif

package anndb

import (
	"context"
	"time"

	"github.com/marekgalovic/anndb/index"
	pb "github.com/marekgalovic/anndb/protobuf"
	"github.com/marekgalovic/anndb/storage"

	uuid "github.com/satori/go.uuid"

	"github.com/marekgalovic/anndb/verifrt"
)

// Harness for the restart clauses of C14 and C20 with a CRASH instead of a
// graceful stop: 1-2 real Servers over the real etcd/raft (zero group and
// partition groups) on the in-memory gRPC transport of VerifC20Raft, virtual
// clock. Each Server is a "process" of the executor (verifrt.SetProcess): all
// goroutines it starts carry its tag. One member dies at a chosen durable
// write of its store - just before or just after a write batch or a committing
// transaction of its Badger database becomes durable - : every goroutine of
// that process stops for good (verifrt.KillProcess), its timers never fire
// again, whatever it had not made durable is lost. Later a new Server is
// started on the same data directory.
//
// History: the second member (if any) joins; datasets are created and one may
// be deleted through the bootstrap member; an operation is acknowledged when
// its call returned nil, otherwise its outcome is unknown. After the restart
// every member must list every acknowledged create, no acknowledged delete,
// nothing that was never asked for, the same on all members; every member
// must list all acknowledged members with their addresses; and one more
// create must be acknowledged (the node keeps serving).
func VerifC14Crash() {
	verifrt.Preemptions(0)
	verifrt.SchedDeterministic(true)
	v := verifC20RaftInstall(0)
	members := verifrt.Bound("members", 1)
	port := func(id uint64) string { return string(rune('5'+id)) + "000" }
	addr := func(id uint64) string { return ":" + port(id) }
	cfgs := map[uint64]*Config{}
	live := map[uint64]*Server{}
	gen := map[uint64]int{}
	tick := func(n int) {
		for i := 0; i < n; i++ {
			verifrt.AdvanceTime(100 * time.Millisecond)
		}
	}
	leader := func() uint64 {
		var lead, term uint64
		for id, s := range live {
			if s.zeroGroup.VerifIsLeader() && s.zeroGroup.VerifTerm() >= term {
				lead, term = id, s.zeroGroup.VerifTerm()
			}
		}
		return lead
	}
	waitLeader := func(max int) uint64 {
		for i := 0; i < max && leader() == 0; i++ {
			tick(1)
		}
		return leader()
	}
	// crash plan
	crashNode := uint64(verifrt.IntIn("crash-node", 1, members))
	crashAt := verifrt.IntIn("crash-at-flush", 0, verifrt.Bound("maxflush", 10))
	crashAfter := false
	if crashAt > 0 {
		crashAfter = verifrt.Choose("crash-after", 2) == 1
	}
	flushes := 0
	crashed, armed := false, false
	forever := make(chan struct{})
	verifrt.Hook("badger-flush-dir", func(phase string, dir string) {
		if !armed || crashed || crashAt == 0 || cfgs[crashNode] == nil || dir != cfgs[crashNode].DataDir+"/anndb" {
			return
		}
		if phase == "before" {
			flushes++
		}
		if flushes == crashAt && ((phase == "after") == crashAfter) {
			crashed = true
			delete(live, crashNode)
			delete(v.servers, addr(crashNode))
			verifrt.Tag("crashed")
			verifrt.KillProcess(int(crashNode)*16 + gen[crashNode])
			<-forever // the process died here
		}
	})
	// the goroutine that runs f belongs to member id's process (the server's own main
	// goroutine for JoinCluster, a request handler for catalogue operations)
	async := func(id uint64, f func() error, max int) (error, bool) {
		var err error
		done := false
		proc := int(id)*16 + gen[id]
		go func() {
			verifrt.SetProcess(proc)
			err = f()
			done = true
		}()
		verifrt.Quiesce()
		for k := 0; k < max && !done; k++ {
			tick(1)
		}
		return err, done
	}
	start := func(id uint64) *Server {
		wasArmed := armed
		armed = false // a process that dies while starting has acknowledged nothing
		gen[id]++
		verifrt.SetProcess(int(id)*16 + gen[id])
		s := NewServer(cfgs[id])
		err := s.setup()
		verifrt.SetProcess(0)
		if err != nil {
			verifrt.Assert(false, "start-succeeds")
			return nil
		}
		live[id] = s
		v.servers[addr(id)] = s
		v.procs[addr(id)] = int(id)*16 + gen[id]
		verifrt.Quiesce()
		armed = wasArmed
		return s
	}
	// a process that ends (exit after a failed join) - nothing of it runs any more
	exit := func(id uint64) {
		delete(live, id)
		delete(v.servers, addr(id))
		verifrt.KillProcess(int(id)*16 + gen[id])
	}
	down := func() bool { return crashed && live[crashNode] == nil }
	cfgs[1] = &Config{RaftNodeId: 1, DataDir: "/verif-c14x-b", Port: port(1)}
	if start(1) == nil {
		return
	}
	if waitLeader(40) == 0 {
		verifrt.Assert(false, "the-bootstrap-member-elects-itself")
		return
	}
	wantMembers := map[uint64]string{1: addr(1)}
	if members >= 2 {
		cfgs[2] = &Config{RaftNodeId: 2, DataDir: "/verif-c14x-c", Port: port(2), JoinNodes: []string{addr(1)}}
		// crashjoin=1: the crash may also hit either side of the join handshake
		armed = verifrt.Bound("crashjoin", 0) == 1
		s := start(2)
		if s == nil {
			return
		}
		err, answered := async(2, s.JoinCluster, 150)
		joined := answered && err == nil
		if verifrt.Bound("dbg", 0) == 1 {
			verifrt.Trace("dbgjoin", "answered", answered, "err", err, "crashed", crashed, "flushes", flushes)
		}
		if !joined && !crashed {
			verifrt.Reach("end")
			return
		}
		if !crashed {
			tick(5)
		}
		armed = false
		if crashed {
			verifrt.Tag("crashed-during-join")
			tick(10)
			if joined || crashNode == 1 {
				// the dead process comes back on its data directory
				if start(crashNode) == nil {
					return
				}
				if joined && crashNode == 2 {
					async(2, live[2].JoinCluster, 150) // original command line: the handshake runs again
				}
			}
			if !joined {
				// a joiner whose join failed exits; it is started again with the same command line
				if live[2] != nil {
					exit(2)
				}
				for attempt := 0; attempt < 3 && !joined; attempt++ {
					ns := start(2)
					if ns == nil {
						return
					}
					jerr, janswered := async(2, ns.JoinCluster, 150)
					joined = janswered && jerr == nil
					if verifrt.Bound("dbg", 0) == 1 {
						verifrt.Trace("dbgrejoin", "answered", janswered, "err", jerr, "leader", leader())
					}
					if !joined {
						exit(2)
						tick(10)
					}
				}
				verifrt.Assert(joined, "after-the-crashed-member-is-back-a-join-is-acknowledged")
				if !joined {
					return
				}
			}
			verifrt.Reach("restarted")
		}
		wantMembers[2] = addr(2)
	}
	armed = !crashed
	ctx := context.Background()
	want := map[string]bool{}
	unknown := 0
	var created [][]byte
	create := func(via uint64, n int) bool {
		if live[via] == nil {
			return false
		}
		rf := members
		if verifrt.Bound("items", 0) == 0 || members == 1 {
			rf = verifrt.IntIn("replication", 1, members)
		}
		req := &pb.Dataset{Dimension: uint32(2 + n), PartitionCount: 1, ReplicationFactor: uint32(rf)}
		var id []byte
		dm := live[via].datasetManager
		err, answered := async(via, func() error {
			ds, err := dm.Create(ctx, req)
			if err == nil {
				id = ds.Meta().GetId()
			}
			return err
		}, 60)
		if answered && err == nil {
			want[string(id)] = true
			created = append(created, id)
			return true
		}
		// not acknowledged: the dataset may or may not exist afterwards
		verifrt.Tag("create-not-acknowledged")
		unknown++
		return false
	}
	nCreates := verifrt.Bound("creates", 2)
	for n := 0; n < nCreates && !down(); n++ {
		create(1, n)
		if !down() {
			tick(3)
		}
		if n == 0 && !down() && len(created) > 0 && verifrt.Bound("deletes", 1) == 1 && verifrt.Choose("delete-first", 2) == 1 {
			id, _ := uuidFromBytes(created[0])
			dm := live[1].datasetManager
			err, answered := async(1, func() error { return dm.Delete(ctx, id) }, 60)
			if answered && err == nil {
				want[string(created[0])] = false
				verifrt.Tag("with-delete")
			} else {
				delete(want, string(created[0])) // outcome unknown
				unknown++
				verifrt.Tag("delete-not-acknowledged")
			}
			if !down() {
				tick(3)
			}
		}
	}
	// items=N (one member): items are written into the surviving dataset through the real
	// Dataset.Insert / Remove (partition group = real etcd/raft, its log in the same store):
	// an answered write is part of the acknowledged history (C03 at the level of a whole Server)
	nItems := verifrt.Bound("items", 0)
	itemState := map[int]int{} // 1 acknowledged present, 2 acknowledged removed, 3 unknown
	var itemDs []byte
	itemDim := 0
	if nItems > 0 && !down() {
		for k, id := range created {
			if want[string(id)] {
				itemDs, itemDim = id, 2+k
			}
		}
	}
	itemId := func(i int) uuid.UUID {
		var u uuid.UUID
		u[0], u[15] = byte(0x41+i), 0x77
		return u
	}
	itemVec := func(i int) []float32 {
		v := make([]float32, itemDim)
		v[0] = float32(3*i + 1)
		return v
	}
	if itemDs != nil {
		dsId, _ := uuidFromBytes(itemDs)
		for i := 0; i < nItems && !down(); i++ {
			ds, gerr := live[1].datasetManager.Get(dsId)
			if gerr != nil {
				break
			}
			i := i
			err, answered := async(1, func() error { return ds.Insert(ctx, itemId(i), itemVec(i), nil) }, 80)
			if answered && err == nil {
				itemState[i] = 1
			} else {
				itemState[i] = 3
				verifrt.Tag("insert-not-acknowledged")
				continue
			}
			if !down() {
				tick(2)
			}
			if !down() && verifrt.Bound("compactitems", 0) == 1 && verifrt.Choose("compact-partition-log", 2) == 1 {
				// the partition group compacts its log into a local snapshot (a crash may hit that too)
				dm := live[1].datasetManager
				async(1, func() error { _, e := storage.VerifCompactPartitions(dm); return e }, 20)
				verifrt.Tag("partition-log-compacted")
			}
			if i == 0 && !down() && verifrt.Choose("remove-first-item", 2) == 1 {
				err, answered := async(1, func() error { return ds.Remove(ctx, itemId(0)) }, 80)
				if answered && err == nil {
					itemState[0] = 2
				} else {
					itemState[0] = 3
					verifrt.Tag("remove-not-acknowledged")
				}
				if !down() {
					tick(2)
				}
			}
		}
	}
	armed = false
	verifrt.Reach("written")
	if down() {
		tick(verifrt.IntIn("down-for", 1, 2) * 10)
		if start(crashNode) == nil {
			return
		}
		verifrt.Reach("restarted")
	}
	// settle
	check := func() bool {
		var ref []string
		first := true
		for id := uint64(1); id <= uint64(members); id++ {
			s := live[id]
			if s == nil {
				return false
			}
			got, ok := verifCatalogue(s)
			if !ok {
				return false
			}
			if first {
				ref, first = got, false
				nWant := 0
				for wid, present := range want {
					found := false
					for _, e := range ref {
						if len(e) >= len(wid) && e[:len(wid)] == wid {
							found = true
						}
					}
					if present {
						nWant++
					}
					if present != found {
						return false
					}
				}
				if len(ref) < nWant || len(ref) > nWant+unknown {
					return false
				}
			} else {
				if len(got) != len(ref) {
					return false
				}
				for i := range ref {
					if got[i] != ref[i] {
						return false
					}
				}
			}
			if !verifSameBook(s.clusterConn.Nodes(), wantMembers) {
				return false
			}
		}
		return true
	}
	ok := false
	for k := 0; k < verifrt.Bound("settlerounds", 120) && !ok; k++ {
		tick(1)
		ok = leader() != 0 && check()
	}
	if verifrt.Bound("dbg", 0) == 1 {
		for id, s := range live {
			got, _ := verifCatalogue(s)
			verifrt.Trace("final", id, len(got), "want", len(want), "unknown", unknown, "leader", leader(), "book", s.clusterConn.Nodes(), "term", s.zeroGroup.VerifTerm(), "applied", s.zeroGroup.VerifApplied(), "leadknown", s.zeroGroup.VerifLeadKnown())
		}
		verifrt.Trace("blocked", verifrt.BlockedDesc())
	}
	verifrt.Assert(ok, "after-a-crash-and-restart-every-member-lists-every-acknowledged-create-no-acknowledged-delete-and-all-members")
	if !ok {
		return
	}
	if itemDs != nil {
		dsId, _ := uuidFromBytes(itemDs)
		memberOk := func(mid uint64) bool {
			srv := live[mid]
			if srv == nil {
				return false
			}
			ds, gerr := srv.datasetManager.Get(dsId)
			if gerr != nil {
				return false
			}
			var res index.SearchResult
			serr, answered := async(mid, func() error {
				var e error
				// (Dataset.Search fans out over gRPC even to the local node; the partitions are searched directly)
				var pids []uuid.UUID
				for _, p := range ds.Meta().GetPartitions() {
					pid, _ := uuidFromBytes(p.GetId())
					pids = append(pids, pid)
				}
				res, e = ds.SearchPartitions(ctx, pids, itemVec(0), uint(nItems+1))
				return e
			}, 20)
			if !answered || serr != nil {
				return false
			}
			found := map[int]bool{}
			for _, it := range res {
				hit := false
				for i := 0; i < nItems; i++ {
					if uuid.Equal(it.Id, itemId(i)) {
						found[i], hit = true, true
					}
				}
				if !hit {
					return false
				}
			}
			for i := 0; i < nItems; i++ {
				switch itemState[i] {
				case 0, 2:
					if found[i] {
						return false
					}
				case 1:
					if !found[i] {
						return false
					}
				}
			}
			return true
		}
		itemsOk := false
		for k := 0; k < 80 && !itemsOk; k++ {
			tick(1)
			itemsOk = true
			for mid := uint64(1); mid <= uint64(members); mid++ {
				if !memberOk(mid) {
					itemsOk = false
				}
			}
		}
		verifrt.Assert(itemsOk, "after-a-crash-and-restart-the-dataset-holds-exactly-the-acknowledged-items")
		verifrt.Reach("items-checked")
	}
	// the node keeps serving: one more create goes through
	served := false
	for attempt := 0; attempt < 3 && !served; attempt++ {
		if l := leader(); l != 0 {
			served = create(l, 5+attempt)
		}
		tick(5)
	}
	verifrt.Assert(served, "after-a-crash-and-restart-a-create-is-acknowledged")
	verifrt.Reach("end")
}

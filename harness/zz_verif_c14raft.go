//go:build verif

package anndb

import (
	"context"
	"time"

	pb "github.com/marekgalovic/anndb/protobuf"

	"github.com/marekgalovic/anndb/verifrt"
)

// Harness for C14 with the REAL etcd/raft: 2-3 real Servers over the in-memory
// gRPC transport of VerifC20Raft; the zero groups AND the partition groups are
// real etcd raft groups (a partition with two replicas is a two-member raft
// group whose members the allocator loads on both servers). Time is the
// executor's virtual clock: every raft ticker, proposal timeout and RPC
// deadline fires when due (verifrt.AdvanceTime).
//
// History: datasets are created through any member before and after the second
// member joined (replication factor 1 or 2) and deleted through any member;
// one raft message may be lost or duplicated; the zero-group leader may
// compact; a third member may join late; any member may restart. An operation
// is acknowledged when its call returned nil. After the faults stop every live
// member must list the same catalogue - ids, dimension, partitions, replica
// assignment -, every acknowledged create listed, every acknowledged delete
// absent.
func VerifC14Raft() {
	verifrt.Preemptions(0)
	verifrt.SchedDeterministic(true)
	v := verifC20RaftInstall(verifrt.Bound("faults", 0))
	members := verifrt.Bound("members", 2)
	maxP := verifrt.Bound("maxp", 1)
	port := func(id uint64) string { return string(rune('5'+id)) + "000" }
	addr := func(id uint64) string { return ":" + port(id) }
	cfgs := map[uint64]*Config{}
	live := map[uint64]*Server{}
	tick := func(n int) {
		for i := 0; i < n; i++ {
			verifrt.AdvanceTime(100 * time.Millisecond)
		}
	}
	leader := func() uint64 {
		var lead, term uint64
		for id, s := range live {
			if s.zeroGroup.VerifIsLeader() && s.zeroGroup.VerifTerm() >= term {
				lead, term = id, s.zeroGroup.VerifTerm()
			}
		}
		return lead
	}
	waitLeader := func(max int) uint64 {
		for i := 0; i < max && leader() == 0; i++ {
			tick(1)
		}
		return leader()
	}
	async := func(f func() error, max int) (error, bool) {
		var err error
		done := false
		go func() {
			err = f()
			done = true
		}()
		verifrt.Quiesce()
		for k := 0; k < max && !done; k++ {
			tick(1)
		}
		return err, done
	}
	start := func(id uint64) *Server {
		s := NewServer(cfgs[id])
		if err := s.setup(); err != nil {
			verifrt.Assert(false, "start-succeeds")
			return nil
		}
		live[id] = s
		v.servers[addr(id)] = s
		verifrt.Quiesce()
		return s
	}
	join := func(id uint64) bool {
		cfgs[id] = &Config{RaftNodeId: id, DataDir: "/verif-c14r-" + string(rune('a'+id)), Port: port(id), JoinNodes: []string{addr(1)}}
		s := start(id)
		if s == nil {
			return false
		}
		err, answered := async(s.JoinCluster, 150)
		if !answered || err != nil {
			return false
		}
		tick(5)
		return true
	}
	cfgs[1] = &Config{RaftNodeId: 1, DataDir: "/verif-c14r-b", Port: port(1)}
	if start(1) == nil {
		return
	}
	if waitLeader(40) == 0 {
		verifrt.Assert(false, "the-bootstrap-member-elects-itself")
		return
	}
	v.armed = true
	ctx := context.Background()
	want := map[string]bool{}
	var created [][]byte
	create := func(via uint64, n int) {
		req := &pb.Dataset{Dimension: uint32(2 + n), PartitionCount: uint32(verifrt.IntIn("partitions", 1, maxP)), ReplicationFactor: uint32(verifrt.IntIn("replication", 1, 2))}
		var id []byte
		err, answered := async(func() error {
			ds, err := live[via].datasetManager.Create(ctx, req)
			if err == nil {
				id = ds.Meta().GetId()
			}
			return err
		}, 40)
		if answered && err == nil {
			want[string(id)] = true
			created = append(created, id)
		} else {
			// not acknowledged: the dataset may or may not exist afterwards
			verifrt.Tag("create-not-acknowledged")
			unknownCreate = true
		}
		tick(5)
	}
	n := 0
	if verifrt.Choose("create-before-join", 2) == 1 {
		create(1, n)
		n++
	}
	if !join(2) {
		verifrt.Reach("end")
		return
	}
	if verifrt.Choose("create-after-join", 2) == 1 {
		create(uint64(1+verifrt.Choose("create-via", 2)), n)
		n++
	}
	// a third member that joined early may be down while a dataset is deleted and the
	// leader compacts: it still lists the dataset and is caught up by a snapshot
	var laggard uint64
	if members >= 3 && verifrt.Bound("lagdelete", 0) == 1 {
		if !join(3) {
			verifrt.Reach("end")
			return
		}
		tick(10)
		if verifrt.Choose("member-down-during-delete", 2) == 1 {
			laggard = 3
			live[3].zeroGroup.Stop()
			live[3].datasetManager.Close()
			delete(live, 3)
			delete(v.servers, addr(3))
			tick(2)
			verifrt.Tag("member-down-during-delete")
		}
	}
	if len(created) > 0 && verifrt.Choose("delete-first", 2) == 1 {
		via := uint64(1 + verifrt.Choose("delete-via", 2))
		id, _ := uuidFromBytes(created[0])
		err, answered := async(func() error { return live[via].datasetManager.Delete(ctx, id) }, 40)
		if answered && err == nil {
			want[string(created[0])] = false
			verifrt.Tag("with-delete")
		} else {
			delete(want, string(created[0])) // outcome unknown
			verifrt.Tag("delete-not-acknowledged")
		}
		tick(5)
	}
	if verifrt.Bound("compact", 1) == 1 && verifrt.Choose("compact", 2) == 1 {
		if l := leader(); l != 0 {
			g := live[l].zeroGroup
			g.VerifTrySnapshot(g.VerifApplied(), 0)
			verifrt.Tag("after-compaction")
		}
	}
	if laggard != 0 {
		if start(laggard) == nil {
			return
		}
		async(live[laggard].JoinCluster, 150)
		verifrt.Tag("laggard-back")
	}
	if members >= 3 && verifrt.Bound("lagdelete", 0) == 0 && verifrt.Choose("late-joiner", 2) == 1 {
		if !join(3) {
			verifrt.Reach("end")
			return
		}
		verifrt.Tag("with-late-joiner")
	}
	v.armed = false
	v.faults = 0
	check := func(label string) bool {
		var ref []string
		var refId uint64
		for id := uint64(1); id <= uint64(members); id++ {
			if s := live[id]; s != nil {
				r, ok := verifCatalogue(s)
				if !ok {
					return false
				}
				ref, refId = r, id
				break
			}
		}
		nWant := 0
		for id, present := range want {
			found := false
			for _, e := range ref {
				if len(e) >= len(id) && e[:len(id)] == id {
					found = true
				}
			}
			if present {
				nWant++
			}
			if present != found {
				return false
			}
		}
		if !unknownCreate && len(ref) != nWant {
			return false
		}
		for id, s := range live {
			if id == refId {
				continue
			}
			got, ok := verifCatalogue(s)
			if !ok || len(got) != len(ref) {
				return false
			}
			for i := range ref {
				if got[i] != ref[i] {
					return false
				}
			}
		}
		_ = label
		return true
	}
	settle := func(label string) {
		ok := false
		for k := 0; k < verifrt.Bound("settlerounds", 100) && !ok; k++ {
			tick(1)
			ok = leader() != 0 && check(label)
		}
		verifrt.Assert(ok, label)
	}
	verifrt.Reach("settled")
	settle("every-member-lists-the-same-catalogue-with-every-acknowledged-create-and-no-acknowledged-delete")
	rid := uint64(0)
	if verifrt.Bound("norestart", 0) == 0 {
		rid = uint64(verifrt.IntIn("restart-member", 0, members))
	}
	if s, ok := live[rid]; ok {
		s.zeroGroup.Stop()
		s.datasetManager.Close()
		delete(live, rid)
		delete(v.servers, addr(rid))
		tick(3)
		if verifrt.Choose("restart-with", 2) == 1 && rid != 1 {
			c := cfgs[rid]
			cfgs[rid] = &Config{RaftNodeId: rid, DataDir: c.DataDir, Port: c.Port, DoNotJoinCluster: true}
		}
		ns := start(rid)
		if ns == nil {
			return
		}
		if !cfgs[rid].DoNotJoinCluster && len(cfgs[rid].JoinNodes) > 0 {
			async(ns.JoinCluster, 150)
		}
		verifrt.Reach("restarted")
		settle("restarted-member-lists-the-same-catalogue")
	}
	verifrt.Reach("end")
}

var unknownCreate bool

//go:build verif

package storage

import (
	"context"

	"github.com/marekgalovic/anndb/cluster"
	"github.com/marekgalovic/anndb/index"
	"github.com/marekgalovic/anndb/storage/raft"
	"github.com/marekgalovic/anndb/storage/wal"

	etcdRaft "github.com/coreos/etcd/raft"
	badger "github.com/dgraph-io/badger/v2"

	"github.com/marekgalovic/anndb/verifrt"
)

// Harness for C04: replicas applying the same log hold identical contents,
// whether they applied every entry (A, B - with independently chosen map
// iteration orders) or restored a snapshot taken after entry `cut` on top of
// an already applied prefix and applied the rest (C).

func verifSameContents(a, b *partition, nIds int, what string) {
	verifrt.Assert(a.index.Len() == b.index.Len(), what+"-same-len")
	for i := 0; i < nIds; i++ {
		va, ea := a.index.GetVertex(verifItemId(i))
		vb, eb := b.index.GetVertex(verifItemId(i))
		verifrt.Assert((ea == nil) == (eb == nil), what+"-same-ids")
		if ea != nil || eb != nil {
			continue
		}
		xa, xb := va.Vector(), vb.Vector()
		verifrt.Assert(len(xa) == len(xb), what+"-same-dimension")
		if len(xa) == len(xb) {
			for d := range xa {
				verifrt.Assert(xa[d] == xb[d], what+"-same-vector")
			}
		}
		ma, mb := va.Metadata(), vb.Metadata()
		verifrt.Assert(len(ma) == len(mb), what+"-same-metadata-size")
		for k, v := range ma {
			w, ok := mb[k]
			verifrt.Assert(ok && v == w, what+"-same-metadata")
		}
	}
}

func VerifC04() {
	L := verifrt.Bound("ops", 3)
	dim := verifrt.Bound("dim", 1)
	grid := verifrt.Bound("grid", 15)
	nIds := verifrt.Bound("ids", 2)
	kinds := verifrt.Bound("kinds", 3)
	verifrt.MapOrder(verifrt.Bound("maporder", 0))
	cfg := verifIdxConfigs()[verifrt.Bound("cfg", 0)]
	cut := verifrt.IntIn("cut", 0, L)
	prefix := verifrt.IntIn("prefix", 0, cut)
	verifLog = nil
	A := verifPartition(dim, cfg)
	m := &verifModel{}
	var snap []byte
	var err error
	// earlysnap=1: the same partition object was snapshotted before (its log is compacted
	// every so many entries): the snapshot at `cut` must describe the state at `cut`
	// whatever was snapshotted earlier
	early := -1
	if verifrt.Bound("earlysnap", 0) == 1 && cut > 0 {
		early = verifrt.IntIn("early-snapshot", -1, cut-1)
	}
	if early == 0 {
		_, eerr := A.snapshot()
		verifrt.Assert(eerr == nil, "snapshot-succeeds")
		verifrt.Tag("snapshotted-before")
	}
	if cut == 0 {
		snap, err = A.snapshot()
		verifrt.Assert(err == nil, "snapshot-succeeds")
	}
	for step := 0; step < L; step++ {
		verifStep(A, m, dim, nIds, grid, step, kinds)
		if step+1 == early {
			_, eerr := A.snapshot()
			verifrt.Assert(eerr == nil, "snapshot-succeeds")
			verifrt.Tag("snapshotted-before")
		}
		if step+1 == cut {
			snap, err = A.snapshot()
			verifrt.Assert(err == nil, "snapshot-succeeds")
		}
	}
	verifCheckContents(A, m, dim, nIds, 0)
	if len(verifLog) != L {
		return // an apply failed; already reported
	}

	// B: full replay
	B := verifPartition(dim, cfg)
	for _, data := range verifLog {
		verifrt.Assert(B.process(data) == nil, "replica-apply-never-fails")
	}
	verifSameContents(A, B, nIds, "replay")

	// C: applied a prefix, restores the snapshot taken at `cut`, applies the rest
	C := verifPartition(dim, cfg)
	for _, data := range verifLog[:prefix] {
		verifrt.Assert(C.process(data) == nil, "replica-apply-never-fails")
	}
	err = C.processSnapshot(snap)
	verifrt.Assert(err == nil, "snapshot-restore-succeeds")
	if err != nil {
		return
	}
	for _, data := range verifLog[cut:] {
		verifrt.Assert(C.process(data) == nil, "replica-apply-never-fails")
	}
	verifSameContents(A, C, nIds, "snapshot+replay")

	// D: a replica that applied a prefix, was removed from the partition (its raft group is
	// unloaded and its log store deleted) and is added again in the same process: its log
	// store is empty, so it is sent the whole log from the start
	if verifrt.Bound("reload", 0) == 1 && prefix > 0 {
		verifrt.Hook("raftnode", func(kind string, rcfg *etcdRaft.Config, npeers int) etcdRaft.Node {
			return &verifNode{proposals: make(chan verifProposal, 8)}
		})
		db, derr := badger.Open(badger.DefaultOptions("").WithInMemory(true))
		if derr != nil {
			panic(derr)
		}
		conn, cerr := cluster.NewConn(1, "n1:0", "")
		if cerr != nil {
			panic(cerr)
		}
		D := verifPartition(dim, cfg)
		D.wal = wal.NewBadgerWAL(db, D.id)
		D.raftTransport = raft.NewTransport(1, "n1:0", conn)
		verifrt.Assert(D.loadRaft([]uint64{1}) == nil, "replica-loads")
		for _, data := range verifLog[:prefix] {
			verifrt.Assert(D.process(data) == nil, "replica-apply-never-fails")
		}
		verifrt.Assert(D.unloadRaft() == nil, "replica-unloads")
		verifrt.Assert(D.loadRaft(nil) == nil, "replica-loads-again")
		for _, data := range verifLog {
			verifrt.Assert(D.process(data) == nil, "replica-apply-never-fails")
		}
		verifrt.Tag("removed-and-re-added")
		verifSameContents(A, D, nIds, "re-added-replica-replay")
		verifrt.Reach("reloaded")
	}
	// a search on the restored replica returns live items with their current metadata
	query := make([]float32, dim)
	for d := range query {
		query[d] = verifrt.F32Grid("query", 0, grid)
	}
	res, serr := C.search(context.Background(), query, 3)
	verifrt.Assert(serr == nil, "search-succeeds")
	for _, item := range res {
		i := verifItemIndex(item.Id)
		verifrt.Assert(i >= 0 && m.present[i], "returned-item-is-live")
		if i >= 0 && m.present[i] {
			verifrt.Assert(sameMeta(item.Metadata, m.meta[i]), "metadata-is-current")
		}
	}
	_ = index.ItemNotFoundError
	verifrt.Reach("end")
}

//go:build verif

package storage

import "fmt"

// VerifSnapshotRestoreAll (export shim for the C12 harness in package
// services): every partition of every catalogued dataset is snapshotted with
// its real snapshot function and the bytes are restored with the real
// processSnapshot into a fresh partition of the same dataset, as a replica
// that restarts from (or is sent) that snapshot would. Returns the number of
// partitions round-tripped.
func VerifSnapshotRestoreAll(dm *DatasetManager) (int, error) {
	dm.datasetsMu.RLock()
	defer dm.datasetsMu.RUnlock()
	n := 0
	for _, ds := range dm.datasets {
		for _, p := range ds.partitions {
			if p.index == nil {
				continue
			}
			data, err := p.snapshot()
			if err != nil {
				return n, fmt.Errorf("snapshot: %v", err)
			}
			fresh := &partition{id: p.id, meta: p.meta, dataset: ds, index: newIndexFromDatasetProto(ds.Meta()), log: verifLogEntry()}
			if err := fresh.processSnapshot(data); err != nil {
				return n, fmt.Errorf("restore: %v", err)
			}
			if fresh.len() != p.len() {
				return n, fmt.Errorf("restore: %d items, snapshotted %d", fresh.len(), p.len())
			}
			n++
		}
	}
	return n, nil
}

//go:build verif

package storage

import (
	"context"
	"fmt"

	uuid "github.com/satori/go.uuid"
)

// VerifSnapshotRestoreAll (export shim for the C12 harness in package
// services): every partition of every catalogued dataset is snapshotted with
// its real snapshot function and the bytes are restored with the real
// processSnapshot into a fresh partition of the same dataset, as a replica
// that restarts from (or is sent) that snapshot would. Returns the number of
// partitions round-tripped.
func VerifSnapshotRestoreAll(dm *DatasetManager) (int, error) {
	dm.datasetsMu.RLock()
	defer dm.datasetsMu.RUnlock()
	n := 0
	for _, ds := range dm.datasets {
		for _, p := range ds.partitions {
			if p.index == nil {
				continue
			}
			data, err := p.snapshot()
			if err != nil {
				return n, fmt.Errorf("snapshot: %v", err)
			}
			fresh := &partition{id: p.id, meta: p.meta, dataset: ds, index: newIndexFromDatasetProto(ds.Meta()), log: verifLogEntry()}
			if err := fresh.processSnapshot(data); err != nil {
				return n, fmt.Errorf("restore: %v", err)
			}
			if fresh.len() != p.len() {
				return n, fmt.Errorf("restore: %d items, snapshotted %d", fresh.len(), p.len())
			}
			n++
		}
	}
	return n, nil
}

// VerifRemoveReplicas (export shim for the C12 harness): the catalogue change
// the allocator proposes when a node leaves the cluster - remove nodeId from
// every partition of every dataset -, proposed and committed through the real
// catalogue group. With replication factor 1 the partitions are left without
// any replica.
func VerifRemoveReplicas(ctx context.Context, dm *DatasetManager, nodeId uint64) error {
	type pair struct{ ds, p uuid.UUID }
	var todo []pair
	dm.datasetsMu.RLock()
	for _, ds := range dm.datasets {
		for _, p := range ds.partitions {
			todo = append(todo, pair{ds.id, p.id})
		}
	}
	dm.datasetsMu.RUnlock()
	for _, t := range todo {
		if err := dm.removePartitionNode(ctx, t.ds, t.p, nodeId); err != nil {
			return err
		}
	}
	return nil
}

// VerifCompactPartitions (export shim for the crash harness in package anndb):
// every partition group loaded on this node compacts its log into a local
// snapshot now (what the ready loop does on its own every so many entries).
// Returns the number of groups compacted.
func VerifCompactPartitions(dm *DatasetManager) (int, error) {
	dm.datasetsMu.RLock()
	var groups []*partition
	for _, ds := range dm.datasets {
		for _, p := range ds.partitions {
			if p.raft != nil {
				groups = append(groups, p)
			}
		}
	}
	dm.datasetsMu.RUnlock()
	n := 0
	for _, p := range groups {
		if err := p.raft.VerifTrySnapshot(p.raft.VerifApplied(), 0); err != nil {
			return n, err
		}
		n++
	}
	return n, nil
}

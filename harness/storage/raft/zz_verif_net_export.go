//go:build verif

package raft

import (
	"context"

	pb "github.com/marekgalovic/anndb/protobuf"

	badger "github.com/dgraph-io/badger/v2"
	uuid "github.com/satori/go.uuid"
)

// Export shim over the harness network of zz_verif_c05raft.go, for harnesses
// in other packages (storage: replicas of a real partition over the real
// etcd/raft). The network sits in RaftTransport.nodeClients of every attached
// transport; message faults are path decisions within the budget while armed.

type VerifNetwork struct{ net *verifR5Net }

func VerifNewNetwork(gid uuid.UUID, ids []uint64, faults int) *VerifNetwork {
	net := &verifR5Net{gid: gid, replicas: map[uint64]*verifR5Replica{}, held: map[[2]uint64]*pb.RaftMessage{},
		forever: make(chan struct{}), crashedC: make(chan struct{}), ids: ids, faults: faults}
	verifR5 = net
	return &VerifNetwork{net}
}

// Attach registers (or re-registers after a restart) replica id with its
// database and transport and routes the transport's peers through the network.
func (n *VerifNetwork) Attach(id uint64, dir string, db *badger.DB, t *RaftTransport) {
	r := n.net.replicas[id]
	if r == nil {
		r = &verifR5Replica{id: id, dir: dir}
		n.net.replicas[id] = r
	}
	r.db, r.transport, r.alive = db, t, true
	for _, other := range n.net.ids {
		if other != id {
			t.nodeClients[other] = &verifR5Client{from: id, to: other}
		}
	}
}

func (n *VerifNetwork) SetAlive(id uint64, alive bool) { n.net.replicas[id].alive = alive }
func (n *VerifNetwork) Alive(id uint64) bool           { return n.net.replicas[id].alive }
func (n *VerifNetwork) Arm(on bool)                    { n.net.armed = on }
func (n *VerifNetwork) Isolate(id uint64)              { n.net.isolated = id }
func (n *VerifNetwork) Isolated() uint64               { return n.net.isolated }
func (n *VerifNetwork) FaultsLeft() int                { return n.net.faults }
func (n *VerifNetwork) StopFaults()                    { n.net.faults = 0; n.net.armed = false; n.net.isolated = 0 }

// DeliverHeld hands over the messages that were held back.
func (n *VerifNetwork) DeliverHeld() {
	for link, in := range n.net.held {
		delete(n.net.held, link)
		n.net.deliver(context.Background(), link[1], in)
	}
}

// raft node access for harness-driven time and leader discovery
func (this *RaftGroup) VerifTick()          { this.raft.Tick() }
func (this *RaftGroup) VerifIsLeader() bool { return this.raft.Status().RaftState.String() == "StateLeader" }
func (this *RaftGroup) VerifTerm() uint64   { return this.raft.Status().Term }
func (this *RaftGroup) VerifApplied() uint64 { return this.raft.Status().Applied }

// VerifTransport: the group's transport (Server.setup keeps it in a local
// variable; the in-memory gRPC routing of the cluster harnesses needs the
// destination's real Receive handler).
func (this *RaftGroup) VerifTransport() *RaftTransport { return this.transport }
func (this *RaftGroup) VerifLeadKnown() uint64         { return this.raft.Status().Lead }

//go:build verif

package raft

import (
	"context"

	"github.com/marekgalovic/anndb/cluster"
	pb "github.com/marekgalovic/anndb/protobuf"

	etcdRaft "github.com/coreos/etcd/raft"
	"github.com/coreos/etcd/raft/raftpb"
	uuid "github.com/satori/go.uuid"
	"google.golang.org/grpc"

	"github.com/marekgalovic/anndb/verifrt"
)

// Harness for C03 / C05 (raft glue): the real RaftGroup.run select loop is fed
// symbolic Ready values by a harness etcdRaft.Node. A recording WAL (over
// etcd's real MemoryStorage), recording peers (pb.RaftTransportClient is an
// interface) and recording callbacks produce an event trace; the obligations
// etcd/raft places on the host loop are asserted on that trace for every
// crash instant (= every prefix of the trace).

type verifEvent struct {
	kind  string // save, apply, applysnap, send, advance, applyconf, unreachable, snapstatus, createsnap, snapshotfn
	ready int    // which Ready was being handled (-1 outside)
	idx   uint64 // entry index / snapshot index / node id
	mtype raftpb.MessageType
	aux   uint64
}

var (
	verifEvents   []verifEvent
	verifCurReady int
)

func verifRecord(e verifEvent) {
	e.ready = verifCurReady
	verifEvents = append(verifEvents, e)
}

// recording WAL ------------------------------------------------------------------

type verifWAL struct {
	*etcdRaft.MemoryStorage
	saves int
}

func (w *verifWAL) Save(hs raftpb.HardState, ents []raftpb.Entry, snap raftpb.Snapshot) error {
	w.saves++
	last := uint64(0)
	if len(ents) > 0 {
		last = ents[len(ents)-1].Index
	}
	verifRecord(verifEvent{kind: "save", idx: last, aux: snap.Metadata.Index})
	return nil
}
func (w *verifWAL) CreateSnapshot(i uint64, cs *raftpb.ConfState, data []byte) (raftpb.Snapshot, error) {
	verifRecord(verifEvent{kind: "createsnap", idx: i})
	return raftpb.Snapshot{}, nil
}
func (w *verifWAL) DeleteGroup() error { return nil }

// harness raft node -----------------------------------------------------------------

type verifReadyNode struct {
	readyc chan etcdRaft.Ready
}

func (n *verifReadyNode) Tick()                                                           {}
func (n *verifReadyNode) Campaign(ctx context.Context) error                              { return nil }
func (n *verifReadyNode) Propose(ctx context.Context, data []byte) error                  { return nil }
func (n *verifReadyNode) ProposeConfChange(ctx context.Context, cc raftpb.ConfChange) error { return nil }
func (n *verifReadyNode) Step(ctx context.Context, msg raftpb.Message) error              { return nil }
func (n *verifReadyNode) Ready() <-chan etcdRaft.Ready                                    { return n.readyc }
func (n *verifReadyNode) Advance()                                                        { verifRecord(verifEvent{kind: "advance"}) }
func (n *verifReadyNode) ApplyConfChange(cc raftpb.ConfChange) *raftpb.ConfState {
	verifRecord(verifEvent{kind: "applyconf", idx: cc.NodeID})
	return &raftpb.ConfState{Nodes: []uint64{1, cc.NodeID}}
}
func (n *verifReadyNode) TransferLeadership(ctx context.Context, lead, transferee uint64) {}
func (n *verifReadyNode) ReadIndex(ctx context.Context, rctx []byte) error             { return nil }
func (n *verifReadyNode) Status() etcdRaft.Status                                      { return etcdRaft.Status{} }
func (n *verifReadyNode) ReportUnreachable(id uint64)                                  { verifRecord(verifEvent{kind: "unreachable", idx: id}) }
func (n *verifReadyNode) ReportSnapshot(id uint64, status etcdRaft.SnapshotStatus) {
	verifRecord(verifEvent{kind: "snapstatus", idx: id, aux: uint64(status)})
}
func (n *verifReadyNode) Stop() {}

// recording peer ----------------------------------------------------------------------

type verifPeer struct {
	id   uint64
	fail bool
}

func (p *verifPeer) Receive(ctx context.Context, in *pb.RaftMessage, opts ...grpc.CallOption) (*pb.EmptyMessage, error) {
	var m raftpb.Message
	if err := m.Unmarshal(in.GetMessage()); err != nil {
		panic(err)
	}
	verifRecord(verifEvent{kind: "send", idx: p.id, mtype: m.Type})
	if p.fail {
		return nil, context.DeadlineExceeded
	}
	return &pb.EmptyMessage{}, nil
}

// one symbolic Ready -------------------------------------------------------------------

type verifReadySpec struct {
	rd        etcdRaft.Ready
	lead      uint64 // leader according to this Ready's SoftState (0xffff: no SoftState)
	committed []raftpb.Entry
}

func verifSymbolicReady(self uint64, next *uint64, k int) verifReadySpec {
	var spec verifReadySpec
	spec.lead = 0xffff
	switch verifrt.Choose("softstate", 4) {
	case 1:
		spec.lead = self
	case 2:
		spec.lead = 2
	case 3:
		spec.lead = 0
	}
	if spec.lead != 0xffff {
		spec.rd.SoftState = &etcdRaft.SoftState{Lead: spec.lead}
	}
	if verifrt.Choose("hardstate", 2) == 1 {
		spec.rd.HardState = raftpb.HardState{Term: 3, Vote: 2, Commit: *next}
	}
	// new entries to persist
	ne := verifrt.IntIn("entries", 0, verifrt.Bound("maxentries", 2))
	for i := 0; i < ne; i++ {
		*next++
		spec.rd.Entries = append(spec.rd.Entries, raftpb.Entry{Index: *next, Term: 3, Data: []byte{byte(k), byte(i)}})
	}
	// a received snapshot
	if verifrt.Bound("snapshots", 1) == 1 && verifrt.Choose("snapshot", 2) == 1 {
		*next += 3
		spec.rd.Snapshot = raftpb.Snapshot{Data: []byte{0x5A}, Metadata: raftpb.SnapshotMetadata{Index: *next, Term: 3}}
	}
	// committed entries: normal with data, normal empty, membership change
	nc := verifrt.IntIn("committed", 0, verifrt.Bound("maxcommitted", 2))
	for i := 0; i < nc; i++ {
		*next++
		e := raftpb.Entry{Index: *next, Term: 3}
		switch verifrt.Choose("committed-kind", 3) {
		case 0:
			e.Data = []byte{0xC0, byte(k), byte(i)}
		case 1:
			// empty normal entry (leader change)
		case 2:
			cc := raftpb.ConfChange{Type: raftpb.ConfChangeAddNode, NodeID: uint64(10 + i), Context: []byte("n:1")}
			data, _ := cc.Marshal()
			e.Type, e.Data = raftpb.EntryConfChange, data
		}
		spec.rd.CommittedEntries = append(spec.rd.CommittedEntries, e)
	}
	// outgoing messages
	nm := verifrt.IntIn("messages", 0, verifrt.Bound("maxmessages", 2))
	types := []raftpb.MessageType{raftpb.MsgAppResp, raftpb.MsgVoteResp, raftpb.MsgApp, raftpb.MsgSnap, raftpb.MsgHeartbeatResp}
	for i := 0; i < nm; i++ {
		mt := types[verifrt.Choose("msgtype", verifrt.Bound("msgtypes", 4))]
		to := uint64(2)
		if verifrt.Choose("msgto", verifrt.Bound("destinations", 2)) == 1 {
			to = 3 // not in the address book
		}
		spec.rd.Messages = append(spec.rd.Messages, raftpb.Message{Type: mt, To: to, From: self, Term: 3})
	}
	// raft sets MustSync when the term/vote changed or there are entries to append
	spec.rd.MustSync = len(spec.rd.Entries) > 0 || !etcdRaft.IsEmptyHardState(spec.rd.HardState)
	return spec
}

func VerifC03() {
	nReady := verifrt.Bound("readys", 2)
	verifrt.Preemptions(verifrt.Bound("preempt", 0))
	verifrt.SchedDeterministic(verifrt.Bound("det", 1) == 1)
	verifrt.TickLimit(1)
	pick := func(name string, n int) int {
		if v := verifrt.Bound(name, -1); v >= 0 {
			return v
		}
		return verifrt.Choose(name, n)
	}
	verifEvents, verifCurReady = nil, -1
	const self = uint64(1)
	conn, err := cluster.NewConn(self, "n1:0", "")
	if err != nil {
		panic(err)
	}
	transport := NewTransport(self, "n1:0", conn)
	conn.AddNode(2, "n2:0")
	peerFails := pick("peerfails", 2) == 1
	transport.nodeClients[2] = &verifPeer{id: 2, fail: peerFails}
	zero := pick("zerogroup", 2) == 1
	gid := uuid.Nil
	if !zero {
		gid = uuid.UUID{0xAA}
	}
	node := &verifReadyNode{readyc: make(chan etcdRaft.Ready)}
	w := &verifWAL{MemoryStorage: etcdRaft.NewMemoryStorage()}
	// the WAL may already hold a snapshot when the group starts
	storedSnap := pick("storedsnap", 2) == 1
	if storedSnap {
		w.ApplySnapshot(raftpb.Snapshot{Data: []byte{0x51}, Metadata: raftpb.SnapshotMetadata{Index: 4, Term: 1}})
	}
	g := VerifNewRaftGroup(gid, node, w, transport)
	transport.addGroup(g)
	g.VerifSetLeader(uint64(pick("leaderbefore", 3))) // 0 none, 1 self, 2 other
	g.RegisterProcessFn(func(data []byte) error {
		verifRecord(verifEvent{kind: "apply", idx: uint64(len(data)), aux: uint64(data[len(data)-1])})
		return nil
	})
	g.RegisterProcessSnapshotFn(func(data []byte) error {
		verifRecord(verifEvent{kind: "applysnap", idx: uint64(data[0])})
		return nil
	})
	g.RegisterSnapshotFn(func() ([]byte, error) {
		verifRecord(verifEvent{kind: "snapshotfn"})
		return []byte{0x77}, nil
	})
	if err := g.Start(); err != nil {
		verifrt.Assert(false, "start-succeeds")
		return
	}
	// (e) a stored snapshot is restored before any Ready is consumed
	if storedSnap {
		verifrt.Assert(len(verifEvents) == 1 && verifEvents[0].kind == "applysnap" && verifEvents[0].idx == 0x51, "stored-snapshot-restored-before-first-ready")
	} else {
		verifrt.Assert(len(verifEvents) == 0, "nothing-applied-before-first-ready")
	}
	startEvents := len(verifEvents)

	next := uint64(verifrt.Bound("baseindex", 6000))
	specs := make([]verifReadySpec, nReady)
	leaderAt := make([]bool, nReady)
	prevLead := g.LeaderId()
	for k := 0; k < nReady; k++ {
		specs[k] = verifSymbolicReady(self, &next, k)
		lead := prevLead
		if specs[k].lead != 0xffff {
			lead = specs[k].lead
		}
		leaderAt[k] = lead == self
		prevLead = lead
		verifCurReady = k
		node.readyc <- specs[k].rd
		verifrt.Quiesce()
	}
	verifCurReady = -1
	// let the tickers fire (raft tick, then the snapshot tick)
	for verifrt.FireTimer() {
		verifrt.Quiesce()
	}
	g.VerifCancel()
	verifrt.Quiesce()
	verifrt.Reach("readys-handled")

	// ---- obligations on the trace -------------------------------------------------
	for k := 0; k < nReady; k++ {
		spec := specs[k]
		savePos, advancePos, lastApplyPos := -1, -1, -1
		var applied []verifEvent
		nAdv, nSave := 0, 0
		for pos := startEvents; pos < len(verifEvents); pos++ {
			e := verifEvents[pos]
			if e.ready != k {
				continue
			}
			switch e.kind {
			case "save":
				nSave++
				if savePos < 0 {
					savePos = pos
				}
			case "advance":
				nAdv++
				advancePos = pos
			case "apply", "applyconf", "applysnap":
				lastApplyPos = pos
				applied = append(applied, e)
				// C03 (a)/(b): nothing is applied (and hence acknowledged) before this Ready's
				// hard state, entries and snapshot are durable: a crash just before this event
				// must find them saved
				if !etcdRaft.IsEmptyHardState(spec.rd.HardState) || len(spec.rd.Entries) > 0 || !etcdRaft.IsEmptySnap(spec.rd.Snapshot) {
					verifrt.Assert(savePos >= 0 && savePos < pos, "persisted-before-applied")
				}
			case "send":
				// C05 (1): a non-leader sends nothing of this Ready before its Save
				if !leaderAt[k] && (!etcdRaft.IsEmptyHardState(spec.rd.HardState) || len(spec.rd.Entries) > 0 || !etcdRaft.IsEmptySnap(spec.rd.Snapshot)) {
					verifrt.Assert(savePos >= 0 && savePos < pos, "follower-messages-leave-after-durable-write")
				}
			}
		}
		// something to persist => exactly one save; an empty Ready may skip it
		mustPersist := !etcdRaft.IsEmptyHardState(spec.rd.HardState) || len(spec.rd.Entries) > 0 || !etcdRaft.IsEmptySnap(spec.rd.Snapshot)
		if mustPersist {
			verifrt.Assert(nSave == 1, "one-save-per-ready-with-state")
		} else {
			verifrt.Assert(nSave <= 1, "at-most-one-save-per-ready")
		}
		verifrt.Assert(nAdv == 1, "advance-once-per-ready")
		verifrt.Assert(advancePos > lastApplyPos && advancePos > savePos, "advance-last")
		_ = mustPersist
		// (d) snapshot first, then every committed entry once, in order
		want := 0
		if !etcdRaft.IsEmptySnap(spec.rd.Snapshot) {
			verifrt.Assert(len(applied) > 0 && applied[0].kind == "applysnap" && applied[0].idx == 0x5A, "received-snapshot-applied-first")
			want = 1
		}
		for _, ce := range spec.rd.CommittedEntries {
			switch {
			case ce.Type == raftpb.EntryConfChange:
				verifrt.Assert(want < len(applied) && applied[want].kind == "applyconf", "conf-change-applied-once-in-order")
				want++
			case len(ce.Data) > 0:
				verifrt.Assert(want < len(applied) && applied[want].kind == "apply" && applied[want].aux == uint64(ce.Data[len(ce.Data)-1]), "entry-applied-once-in-order")
				want++
			}
		}
		verifrt.Assert(want == len(applied), "nothing-else-applied")
		// C05 (4): every message is either delivered or reported
		for _, m := range spec.rd.Messages {
			delivered, reported, snapReported := false, false, false
			for pos := startEvents; pos < len(verifEvents); pos++ {
				e := verifEvents[pos]
				if e.ready != k {
					continue
				}
				if e.kind == "send" && e.idx == m.To && e.mtype == m.Type {
					delivered = true
				}
				if e.kind == "unreachable" && e.idx == m.To {
					reported = true
				}
				if e.kind == "snapstatus" && e.idx == m.To {
					snapReported = true
				}
			}
			if m.To == 3 || peerFails {
				verifrt.Assert(reported, "undeliverable-message-reported-unreachable")
			} else {
				verifrt.Assert(delivered, "message-delivered")
			}
			if m.Type == raftpb.MsgSnap {
				verifrt.Assert(snapReported, "snapshot-message-outcome-reported")
			}
		}
	}
	// C05 (3): only the zero group feeds the address book from membership entries
	_, has10 := conn.Nodes()[10]
	anyConf := false
	for _, s := range specs {
		for _, ce := range s.rd.CommittedEntries {
			if ce.Type == raftpb.EntryConfChange && ce.Index > 0 {
				cc := raftpb.ConfChange{}
				cc.Unmarshal(ce.Data)
				if cc.NodeID == 10 {
					anyConf = true
				}
			}
		}
	}
	if anyConf {
		verifrt.Assert(has10 == zero, "only-the-zero-group-updates-the-address-book")
	} else {
		verifrt.Assert(!has10, "address-book-untouched")
	}
	// C03 (c): a local snapshot is labelled with the index of the last applied entry
	lastApplied := uint64(0)
	if storedSnap {
		lastApplied = 0 // Start does not advance the applied index
	}
	for _, s := range specs {
		if !etcdRaft.IsEmptySnap(s.rd.Snapshot) && s.rd.Snapshot.Metadata.Index > lastApplied {
			lastApplied = s.rd.Snapshot.Metadata.Index
		}
		for _, ce := range s.rd.CommittedEntries {
			lastApplied = ce.Index
		}
	}
	for pos, e := range verifEvents {
		if e.kind == "createsnap" {
			verifrt.Reach("local-snapshot-taken")
			// the label must not run ahead of what the snapshot data contains (an entry
			// above the label but inside the data is re-applied harmlessly after a restart;
			// an entry below the label that is missing from the data would be lost)
			verifrt.Assert(e.idx <= lastApplied, "local-snapshot-label-not-ahead-of-applied-index")
			verifrt.Assert(pos > 0 && verifEvents[pos-1].kind == "snapshotfn", "snapshot-data-produced-just-before-labelling")
		}
	}
	verifrt.Reach("end")
}

//go:build verif

package raft

import (
	"context"

	"github.com/marekgalovic/anndb/storage/wal"

	etcdRaft "github.com/coreos/etcd/raft"
	uuid "github.com/satori/go.uuid"
)

// Overlay-only constructor: a RaftGroup around a caller-supplied raft node
// (etcdRaft.Node is a Go interface) instead of etcdRaft.StartNode/RestartNode.
func VerifNewRaftGroup(id uuid.UUID, node etcdRaft.Node, storage wal.WAL, transport *RaftTransport) *RaftGroup {
	ctx, cancel := context.WithCancel(context.Background())
	return &RaftGroup{
		id:        id,
		transport: transport,
		ctx:       ctx,
		ctxCancel: cancel,
		raft:      node,
		wal:       storage,
	}
}

// VerifRun runs the real ready loop on the calling goroutine.
func (this *RaftGroup) VerifRun() { this.run() }

func (this *RaftGroup) VerifCancel() { this.ctxCancel() }

func (this *RaftGroup) VerifSetLeader(id uint64) { this.raftLeaderId = id }

func (this *RaftGroup) VerifTrySnapshot(idx, skip uint64) error { return this.trySnapshot(idx, skip) }

// VerifSnapshot produces the group's application snapshot the way trySnapshot does.
func (this *RaftGroup) VerifSnapshot() ([]byte, error) { return this.snapshotFn() }

// VerifProcessSnapshot installs an application snapshot the way a received
// raft snapshot is processed.
func (this *RaftGroup) VerifProcessSnapshot(data []byte) error { return this.processSnapshotFn(data) }

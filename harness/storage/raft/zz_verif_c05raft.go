//go:build verif

package raft

import (
	"context"
	"fmt"

	"github.com/marekgalovic/anndb/cluster"
	pb "github.com/marekgalovic/anndb/protobuf"
	"github.com/marekgalovic/anndb/storage/wal"

	"github.com/coreos/etcd/raft/raftpb"
	badger "github.com/dgraph-io/badger/v2"
	uuid "github.com/satori/go.uuid"
	"google.golang.org/grpc"

	"github.com/marekgalovic/anndb/verifrt"
)

// Harness for C05 with the REAL etcd/raft: 2-3 replicas of one group, each a
// real RaftGroup (real ready loop) around a real etcd raft node (StartNode /
// RestartNode and node.run are interpreted, not stubbed) over the real
// badgerWAL on its own database (Badger API model), connected by a harness
// network that sits where gRPC would: the real RaftTransport.Send calls the
// harness pb.RaftTransportClient, which decides the fate of every message
// (deliver, lose with an error, lose silently, duplicate, hold back and deliver
// after the next message on the link) within a fault budget and otherwise
// hands it to the destination's real RaftTransport.Receive. A replica may crash
// at a durable-write boundary of its log store (the flushing goroutine never
// returns; the instance is abandoned) and is restarted later on the same
// database. Time is driven by the harness: one round = every live replica's
// raft node ticks once, then everything runs until all goroutines block.
//
// Oracle (the statement of C05):
//   - what leaves a replica is covered by what its log store has made durable:
//     term of every message, the vote of a granted MsgVoteResp, the entries an
//     accepting MsgAppResp acknowledges (checked through a fresh store handle
//     on the sender's database at the instant the message leaves);
//   - the replicated state machine is the list of applied payloads; the lists
//     of any two replicas (including the list a restarted replica rebuilds) are
//     prefixes of one another at every quiescent point: no two replicas apply
//     different entries at one position, positions are applied in order;
//   - a restarted replica comes back with a term no older than its durable
//     one, does not panic, does not bootstrap again;
//   - after the faults stop, within the tick bound, a leader exists, a fresh
//     proposal commits and every live replica holds the same list.

type verifR5Replica struct {
	id        uint64
	dir       string
	db        *badger.DB
	transport *RaftTransport
	group     *RaftGroup
	applied   [][]byte
	alive     bool
	lives     int
	termAtCrash uint64
	logAtStop   []uint64
}

type verifR5Net struct {
	gid      uuid.UUID
	replicas map[uint64]*verifR5Replica
	ids      []uint64
	faults   int
	held     map[[2]uint64]*pb.RaftMessage
	sent     int
	isolated  uint64 // replica cut off from the others (0: none)
	healed    uint64 // the replica that was isolated, after the heal
	sinceHeal int
	restarts  int
	// crash plan
	crashNode  uint64
	crashAt    int
	crashAfter bool
	flushes    int
	crashed    bool
	forever    chan struct{}
	crashedC   chan struct{}
	armed      bool
}

var verifR5 *verifR5Net

type verifR5Client struct{ from, to uint64 }

func (c *verifR5Client) Receive(ctx context.Context, in *pb.RaftMessage, opts ...grpc.CallOption) (*pb.EmptyMessage, error) {
	net := verifR5
	var m raftpb.Message
	if err := m.Unmarshal(in.GetMessage()); err != nil {
		panic(err)
	}
	net.sent++
	verifR5CheckDurable(c.from, &m)
	if verifrt.Bound("isolateall", 0) == 1 || net.isolated != 0 && (c.from == net.isolated || c.to == net.isolated) {
		return nil, context.DeadlineExceeded // the partition: nothing crosses
	}
	action := 0
	if net.faults > 0 && net.armed {
		action = verifrt.Choose("net", verifrt.Bound("netactions", 5))
		if action != 0 {
			net.faults--
			verifrt.Tag("net-fault")
		}
	}
	link := [2]uint64{c.from, c.to}
	switch action {
	case 1: // lost, the sender sees an error
		return nil, context.DeadlineExceeded
	case 2: // lost, the sender sees success
		return &pb.EmptyMessage{}, nil
	case 3: // duplicated
		if _, err := net.deliver(ctx, c.to, in); err != nil {
			return nil, err
		}
		return net.deliver(ctx, c.to, in)
	case 4: // held back: delivered after the next message on this link (or when the network heals)
		if old := net.held[link]; old != nil {
			net.deliver(ctx, c.to, old)
		}
		net.held[link] = in
		return &pb.EmptyMessage{}, nil
	}
	res, err := net.deliver(ctx, c.to, in)
	if old := net.held[link]; old != nil {
		delete(net.held, link)
		net.deliver(ctx, c.to, old) // reordered: the older message arrives second
	}
	return res, err
}

func (net *verifR5Net) deliver(ctx context.Context, to uint64, in *pb.RaftMessage) (*pb.EmptyMessage, error) {
	r := net.replicas[to]
	if r == nil || !r.alive {
		return nil, context.DeadlineExceeded
	}
	return r.transport.Receive(ctx, in)
}

// verifR5CheckDurable: the message m is leaving replica `from` now.
func verifR5CheckDurable(from uint64, m *raftpb.Message) {
	net := verifR5
	r := net.replicas[from]
	store := wal.NewBadgerWAL(r.db, net.gid) // a fresh handle: no cache, only what the database holds
	hs, _, err := store.InitialState()
	verifrt.Assert(err == nil, "durable-state-readable")
	if err != nil {
		return
	}
	if m.Term > 0 {
		verifrt.Assert(hs.Term >= m.Term, "message-term-is-durable-before-it-leaves")
	}
	switch m.Type {
	case raftpb.MsgVoteResp:
		if !m.Reject {
			verifrt.Assert(hs.Term == m.Term && hs.Vote == m.To, "granted-vote-is-durable-before-it-leaves")
		}
	case raftpb.MsgAppResp:
		if !m.Reject {
			last, lerr := store.LastIndex()
			verifrt.Assert(lerr == nil && last >= m.Index, "acknowledged-entries-are-durable-before-the-ack-leaves")
		}
	}
}

func verifR5Start(r *verifR5Replica, bootstrap []uint64) {
	net := verifR5
	conn, err := cluster.NewConn(r.id, fmt.Sprintf("n%d:0", r.id), "")
	if err != nil {
		panic(err)
	}
	r.transport = NewTransport(r.id, fmt.Sprintf("n%d:0", r.id), conn)
	for _, other := range net.ids {
		if other != r.id {
			r.transport.nodeClients[other] = &verifR5Client{from: r.id, to: other}
		}
	}
	r.applied = nil
	g, err := NewRaftGroup(net.gid, bootstrap, wal.NewBadgerWAL(r.db, net.gid), r.transport)
	if err != nil {
		panic(err)
	}
	r.group = g
	g.RegisterProcessFn(func(data []byte) error {
		r.applied = append(r.applied, append([]byte(nil), data...))
		return nil
	})
	g.RegisterSnapshotFn(func() ([]byte, error) {
		var out []byte
		for _, d := range r.applied {
			out = append(out, byte(len(d)))
			out = append(out, d...)
		}
		return out, nil
	})
	g.RegisterProcessSnapshotFn(func(data []byte) error {
		verifrt.Reach("snapshot-restored")
		r.applied = nil
		for len(data) > 0 {
			n := int(data[0])
			r.applied = append(r.applied, append([]byte(nil), data[1:1+n]...))
			data = data[1+n:]
		}
		return nil
	})
	if err := g.Start(); err != nil {
		verifrt.Assert(false, "group-starts")
	}
	r.alive = true
	r.lives++
}

// verifR5LogView: first index, last index and the term of every index, as a store handle answers
func verifR5LogView(w wal.WAL) (view []uint64) {
	first, err1 := w.FirstIndex()
	last, err2 := w.LastIndex()
	if err1 != nil || err2 != nil {
		return []uint64{^uint64(0)}
	}
	view = append(view, first, last)
	for i := first; i <= last; i++ {
		t, err := w.Term(i)
		if err != nil {
			t = ^uint64(0)
		}
		view = append(view, t)
	}
	return view
}

func verifR5Stop(r *verifR5Replica) {
	if st, _, err := wal.NewBadgerWAL(r.db, verifR5.gid).InitialState(); err == nil {
		r.termAtCrash = st.Term
	}
	// quiescent: everything the running replica believes about its log is saved
	r.logAtStop = verifR5LogView(r.group.wal)
	r.alive = false
	r.group.Stop()
}

func verifR5Restart(r *verifR5Replica) {
	r.db, _ = badger.Open(badger.DefaultOptions(r.dir))
	if r.logAtStop != nil {
		// a replica stopped at a quiescent point resumes from exactly the log it had:
		// nothing it had replaced comes back, nothing it had is gone
		now := verifR5LogView(wal.NewBadgerWAL(r.db, verifR5.gid))
		same := len(now) == len(r.logAtStop)
		for i := 0; same && i < len(now); i++ {
			same = now[i] == r.logAtStop[i]
		}
		verifrt.Assert(same, "restarted-replica-resumes-from-the-log-it-had")
		r.logAtStop = nil
	}
	verifR5Start(r, verifR5.ids)
	verifrt.Quiesce()
	st := r.group.raft.Status()
	verifrt.Assert(st.Term >= r.termAtCrash, "restarted-replica-resumes-from-a-term-no-older-than-its-durable-one")
	verifrt.Reach("restarted")
}

// verifR5Consistent: applied lists are prefixes of one another.
func verifR5Consistent(label string) {
	net := verifR5
	for _, a := range net.ids {
		for _, b := range net.ids {
			if a >= b {
				continue
			}
			la, lb := net.replicas[a].applied, net.replicas[b].applied
			n := len(la)
			if len(lb) < n {
				n = len(lb)
			}
			for i := 0; i < n; i++ {
				verifrt.Assert(string(la[i]) == string(lb[i]), label)
			}
		}
	}
}

func verifR5Round() {
	net := verifR5
	for _, id := range net.ids {
		r := net.replicas[id]
		if r.alive {
			r.group.raft.Tick()
		}
	}
	verifrt.Quiesce()
	verifR5Consistent("no-two-replicas-apply-different-entries-at-one-position")
	if verifrt.Bound("dbg", 0) == 1 {
		line := ""
		for _, id := range net.ids {
			r := net.replicas[id]
			if !r.alive {
				line += fmt.Sprintf(" [n%d dead]", id)
				continue
			}
			st := r.group.raft.Status()
			last, _ := r.group.wal.LastIndex()
			line += fmt.Sprintf(" [n%d %s t%d lead%d commit%d applied%d last%d sm%d]", id, st.RaftState.String(), st.Term, st.Lead, st.Commit, st.Applied, last, len(r.applied))
		}
		verifrt.Trace("round", line, "isolated", net.isolated, "sent", net.sent)
		if net.sent == verifrt.Bound("dbgsent", -1) {
			verifrt.Trace("blocked", verifrt.BlockedDesc())
		}
	}
}

func verifR5Leader() *verifR5Replica {
	net := verifR5
	var lead *verifR5Replica
	for _, id := range net.ids {
		r := net.replicas[id]
		if r.alive && r.group.raft.Status().RaftState.String() == "StateLeader" {
			if lead == nil || r.group.raft.Status().Term > lead.group.raft.Status().Term {
				lead = r
			}
		}
	}
	return lead
}

func VerifC05Raft() {
	N := verifrt.Bound("nodes", 3)
	verifrt.SchedDeterministic(true)
	net := &verifR5Net{gid: verifR5Gid(), replicas: map[uint64]*verifR5Replica{}, held: map[[2]uint64]*pb.RaftMessage{}, forever: make(chan struct{}), crashedC: make(chan struct{})}
	verifR5 = net
	net.faults = verifrt.Bound("faults", 1)
	net.restarts = verifrt.Bound("restarts", 0)
	// randomized election timeouts: deterministic, distinct for successive draws
	draws := 0
	verifrt.Hook("raft-rand", func(n int) int {
		draws++
		return (draws * 4) % n
	})
	// crash plan: which replica dies at which durable write of its store
	if verifrt.Bound("crashes", 0) > 0 {
		net.crashNode = uint64(verifrt.IntIn("crash-node", 0, N))
		if net.crashNode != 0 {
			net.crashAt = verifrt.IntIn("crash-at-flush", 1, verifrt.Bound("maxflush", 6))
			net.crashAfter = verifrt.Choose("crash-after", 2) == 1
		}
	}
	verifrt.Hook("badger-flush-dir", func(phase string, dir string) {
		if !net.armed || net.crashed || net.crashNode == 0 {
			return
		}
		r := net.replicas[net.crashNode]
		if dir != r.dir {
			return
		}
		if phase == "before" {
			net.flushes++
		}
		if net.flushes == net.crashAt && ((phase == "after") == net.crashAfter) {
			net.crashed = true
			close(net.crashedC)
			r.alive = false
			verifrt.Tag("crashed")
			if st, _, err := wal.NewBadgerWAL(r.db, net.gid).InitialState(); err == nil {
				r.termAtCrash = st.Term
			}
			<-net.forever // the process died here
		}
	})
	for i := 1; i <= N; i++ {
		net.ids = append(net.ids, uint64(i))
	}
	for _, id := range net.ids {
		dir := fmt.Sprintf("/verif-c05-%d", id)
		db, err := badger.Open(badger.DefaultOptions(dir))
		if err != nil {
			panic(err)
		}
		net.replicas[id] = &verifR5Replica{id: id, dir: dir, db: db}
	}
	for _, id := range net.ids {
		verifR5Start(net.replicas[id], net.ids)
	}
	verifrt.Quiesce()
	net.armed = true

	// phase 1: elect, propose, with message faults, one network partition and the crash.
	// Proposals go to every replica that believes it is the leader (an isolated
	// stale leader accepts them into its log, where they can never commit).
	proposals := verifrt.Bound("proposals", 3)
	proposed := 0
	rounds := verifrt.Bound("rounds", 40)
	partitions := verifrt.Bound("partitions", 0)
	partitionedFor := 0
	sawLeader := false
	offer := false // a point at which a partition may start: first leader, and after every proposal
	for k := 0; k < rounds; k++ {
		verifR5Round()
		lead := verifR5Leader()
		if lead != nil && !sawLeader {
			sawLeader, offer = true, true
		}
		if offer && partitions > 0 && net.isolated == 0 && lead != nil {
			offer = false
			switch verifrt.Choose("partition", 3) {
			case 1:
				net.isolated = lead.id
				verifrt.Tag("leader-isolated")
			case 2:
				for _, id := range net.ids {
					if id != lead.id {
						net.isolated = id
						break
					}
				}
				verifrt.Tag("follower-isolated")
			}
			if net.isolated != 0 {
				partitions--
				partitionedFor = 0
			}
		}
		if net.isolated != 0 {
			partitionedFor++
			// heal after enough rounds for an election on the majority side (decision every 6 rounds)
			if partitionedFor >= verifrt.Bound("minpartition", 20) && (partitionedFor-verifrt.Bound("minpartition", 20))%6 == 0 {
				if partitionedFor >= verifrt.Bound("maxpartition", 26) || verifrt.Choose("heal", 2) == 1 {
					net.healed = net.isolated
					net.isolated = 0
					net.sinceHeal = 0
					verifrt.Tag("healed")
				}
			}
		} else if net.healed != 0 {
			net.sinceHeal++
		}
		if proposed < proposals {
			any := false
			for _, id := range net.ids {
				r := net.replicas[id]
				if r.alive && r.group.raft.Status().RaftState.String() == "StateLeader" {
					// the isolated stale leader takes more proposals than the majority side
					n := 1
					if id == net.isolated {
						n = verifrt.Bound("staleproposals", 2)
					}
					for j := 0; j < n; j++ {
						ctx, cancel := context.WithCancel(context.Background())
						r.group.Propose(ctx, []byte{byte('a' + proposed), byte('0' + id), byte('0' + j)})
						cancel()
					}
					any = true
				}
			}
			if any {
				proposed++
				offer = true
				verifrt.Quiesce()
				verifR5Consistent("no-two-replicas-apply-different-entries-at-one-position")
				if lead != nil && verifrt.Bound("compact", 0) == 1 && verifrt.Choose("compact", 2) == 1 {
					// compact the leader's log so that a lagging replica needs a snapshot
					// (the real loop snapshots on its own goroutine; here a helper goroutine does, so
					// that a crash inside the snapshot write does not take the harness with it)
					st := lead.group.raft.Status()
					g := lead.group
					done := make(chan struct{})
					go func() {
						g.VerifTrySnapshot(st.Applied, 0)
						close(done)
					}()
					select {
					case <-done:
					case <-net.crashedC:
					}
					verifrt.Tag("compacted")
				}
			}
		}
		// a graceful restart of the replica that was isolated, some rounds after the heal
		if net.healed != 0 && net.restarts > 0 && (net.sinceHeal == 1 || net.sinceHeal == 4 || net.sinceHeal == 10) && net.replicas[net.healed].alive {
			if verifrt.Choose("restart-healed", 2) == 1 {
				net.restarts--
				r := net.replicas[net.healed]
				verifR5Stop(r)
				verifrt.Quiesce()
				verifR5Restart(r)
				verifrt.Tag("restarted-after-heal")
			}
		}
		if proposed >= proposals && net.faults == 0 && net.isolated == 0 && (net.healed == 0 || net.sinceHeal > 12) && k >= verifrt.Bound("minrounds", 14) {
			break
		}
	}
	net.isolated = 0
	verifrt.Reach("phase1")

	// phase 2: faults stop; held messages arrive; the crashed replica restarts
	net.armed = false
	net.faults = 0
	for link, in := range net.held {
		delete(net.held, link)
		net.deliver(context.Background(), link[1], in)
	}
	verifrt.Quiesce()
	if net.crashed {
		verifR5Restart(net.replicas[net.crashNode])
	}
	verifR5Consistent("no-two-replicas-apply-different-entries-at-one-position")
	converged := false
	final := []byte("final")
	// a proposal may land on a leader that is about to be deposed and be lost with
	// its uncommitted tail; it is proposed again (to whoever leads then) until applied
	for k := 0; k < verifrt.Bound("healrounds", 90); k++ {
		verifR5Round()
		if k%10 == 0 {
			if lead := verifR5Leader(); lead != nil {
				ctx, cancel := context.WithCancel(context.Background())
				lead.group.Propose(ctx, final)
				cancel()
				verifrt.Quiesce()
			}
		}
		all := true
		for _, id := range net.ids {
			r := net.replicas[id]
			if len(r.applied) == 0 || string(r.applied[len(r.applied)-1]) != string(final) {
				all = false
			}
		}
		if all {
			converged = true
			break
		}
	}
	verifrt.Assert(converged, "after-faults-stop-all-live-replicas-converge")
	if converged {
		n0 := len(net.replicas[net.ids[0]].applied)
		for _, id := range net.ids {
			verifrt.Assert(len(net.replicas[id].applied) == n0, "converged-replicas-hold-the-same-list")
		}
		verifR5Consistent("converged-replicas-hold-the-same-list")
	}
	verifrt.Reach("end")
}

func verifR5Gid() uuid.UUID {
	var u uuid.UUID
	u[0], u[15] = 0x05, 0x01
	return u
}

//go:build verif

package storage

import (
	"context"
	"fmt"

	"github.com/marekgalovic/anndb/cluster"
	"github.com/marekgalovic/anndb/index"
	pb "github.com/marekgalovic/anndb/protobuf"
	"github.com/marekgalovic/anndb/storage/raft"

	badger "github.com/dgraph-io/badger/v2"

	"github.com/marekgalovic/anndb/verifrt"
)

// Harness for C03 (multi-replica clause) with the REAL etcd/raft: three
// replicas of one real partition - real index, real apply path, real
// proposeAndWaitForCommit, real RaftGroup ready loop, real badgerWAL on its own
// database (Badger API model) - connected by the harness network of
// storage/raft/zz_verif_c05raft.go. A sequential client writes through whichever
// replica leads; an answer (nil / already exists / not found) makes the write
// part of the acknowledged history, a write that is never answered is in
// flight. Meanwhile: message faults within a budget, the leader or a follower
// cut off for a while, ONE replica (a minority) crashing at a durable-write
// boundary of its store and restarting later on the same database, optional
// log compaction. When the faults have stopped a sentinel write is made until
// it is acknowledged; then every replica - the restarted one included - must
// hold exactly the acknowledged history, optionally extended by the write in
// flight, plus the sentinel; nothing that was never submitted.

type verifC3Replica struct {
	id    uint64
	dir   string
	db    *badger.DB
	p     *partition
	alive bool
}

func verifC3Start(net *raft.VerifNetwork, r *verifC3Replica, ids []uint64) bool {
	addr := fmt.Sprintf("n%d:0", r.id)
	conn, err := cluster.NewConn(r.id, addr, "")
	if err != nil {
		panic(err)
	}
	transport := raft.NewTransport(r.id, addr, conn)
	net.Attach(r.id, r.dir, r.db, transport)
	ds := verifDataset(r.id, 1, [][]uint64{ids})
	ds.meta.Space = pb.Space_Manhattan
	pid := verifUUID(0x31)
	meta := &pb.Partition{Id: pid.Bytes(), NodeIds: ids}
	p := newPartition(pid, meta, ds, r.db, transport, nil)
	p.index = verifPartition(1, verifIdxConfigs()[verifrt.Bound("cfg", 0)]).index
	if err := p.loadRaft(ids); err != nil {
		return false
	}
	r.p, r.alive = p, true
	return true
}

func VerifC03Cluster() {
	verifrt.SchedDeterministic(true)
	ids := []uint64{1, 2, 3}
	L := verifrt.Bound("ops", 2)
	nIds := verifrt.Bound("ids", 2)
	net := raft.VerifNewNetwork(verifUUID(0x31), ids, verifrt.Bound("faults", 0))
	draws := 0
	verifrt.Hook("raft-rand", func(n int) int {
		draws++
		return (draws * 4) % n
	})
	replicas := map[uint64]*verifC3Replica{}
	// crash plan
	crashNode := uint64(0)
	crashAt, crashAfter := 0, false
	if verifrt.Bound("crashes", 0) > 0 {
		crashNode = uint64(verifrt.IntIn("crash-node", 0, 3))
		if crashNode != 0 {
			crashAt = verifrt.IntIn("crash-at-flush", 1, verifrt.Bound("maxflush", 8))
			crashAfter = verifrt.Choose("crash-after", 2) == 1
		}
	}
	flushes := 0
	crashed, armed := false, false
	forever := make(chan struct{})
	crashedC := make(chan struct{})
	verifrt.Hook("badger-flush-dir", func(phase string, dir string) {
		if !armed || crashed || crashNode == 0 || dir != replicas[crashNode].dir {
			return
		}
		if phase == "before" {
			flushes++
		}
		if flushes == crashAt && ((phase == "after") == crashAfter) {
			crashed = true
			replicas[crashNode].alive = false
			net.SetAlive(crashNode, false)
			verifrt.Tag("crashed")
			close(crashedC)
			<-forever // the process died here
		}
	})
	for _, id := range ids {
		dir := fmt.Sprintf("/verif-c03c-%d", id)
		db, err := badger.Open(badger.DefaultOptions(dir))
		if err != nil {
			panic(err)
		}
		replicas[id] = &verifC3Replica{id: id, dir: dir, db: db}
	}
	for _, id := range ids {
		if !verifC3Start(net, replicas[id], ids) {
			verifrt.Assert(false, "raft-loads")
			return
		}
	}
	verifrt.Quiesce()

	round := func() {
		for _, id := range ids {
			if r := replicas[id]; r.alive {
				r.p.raft.VerifTick()
			}
		}
		verifrt.Quiesce()
		if verifrt.Bound("dbg", 0) == 1 {
			line := ""
			for _, id := range ids {
				r := replicas[id]
				if !r.alive {
					line += fmt.Sprintf(" [n%d dead]", id)
					continue
				}
				line += fmt.Sprintf(" [n%d lead=%v t%d applied%d len%d]", id, r.p.raft.VerifIsLeader(), r.p.raft.VerifTerm(), r.p.raft.VerifApplied(), r.p.index.Len())
			}
			verifrt.Trace("round", line, "isolated", net.Isolated())
		}
	}
	leader := func() *verifC3Replica {
		var lead *verifC3Replica
		for _, id := range ids {
			r := replicas[id]
			if r.alive && r.p.raft.VerifIsLeader() && (lead == nil || r.p.raft.VerifTerm() > lead.p.raft.VerifTerm()) {
				lead = r
			}
		}
		return lead
	}
	// first leader
	for k := 0; k < 40 && leader() == nil; k++ {
		round()
	}
	if leader() == nil {
		verifrt.Assert(false, "a-leader-is-elected")
		return
	}
	armed = true
	net.Arm(true)

	acked := &verifModel{}
	inflight := &verifModel{}
	haveInflight := false
	type answer struct {
		err  error
		done bool
	}
	write := func(r *verifC3Replica, kind, i int, vec []float32) *answer {
		a := &answer{}
		p := r.p
		go func() {
			ctx := context.Background()
			switch kind {
			case 0:
				a.err = p.insert(ctx, verifItemId(i), vec, nil)
			case 1:
				a.err = p.update(ctx, verifItemId(i), vec, nil)
			case 2:
				a.err = p.remove(ctx, verifItemId(i))
			}
			a.done = true
		}()
		return a
	}
	for step := 0; step < L && !haveInflight; step++ {
		// optionally cut a replica off before this write (the leader keeps accepting it)
		if verifrt.Bound("partitions", 0) > 0 && net.Isolated() == 0 && step > 0 {
			switch verifrt.Choose("partition", 3) {
			case 1:
				if l := leader(); l != nil {
					net.Isolate(l.id)
					verifrt.Tag("leader-isolated")
				}
			case 2:
				for _, id := range ids {
					if l := leader(); l != nil && id != l.id {
						net.Isolate(id)
						verifrt.Tag("follower-isolated")
						break
					}
				}
			}
		}
		lead := leader()
		if lead == nil {
			for k := 0; k < 40 && lead == nil; k++ {
				round()
				lead = leader()
			}
			if lead == nil {
				break
			}
		}
		var i, kind int
		if verifrt.Bound("script", 0) == 1 {
			// the scripted history insert a, insert b, remove a (then update b ...): a replica that
			// misses the removal and is caught up by a non-empty snapshot must not keep a
			scriptIds := []int{0, 1, 0, 1}
			scriptKinds := []int{0, 0, 2, 1}
			i, kind = scriptIds[step%4], scriptKinds[step%4]
		} else {
			i = verifrt.IntIn("id", 0, nIds-1)
			kind = verifrt.Choose("write", 3)
		}
		vec := []float32{float32(10*step + i + 1)}
		next := &verifModel{}
		*next = *acked
		switch kind {
		case 0:
			if !acked.present[i] {
				next.present[i], next.vec[i] = true, vec
			}
		case 1:
			if acked.present[i] {
				next.vec[i] = vec
			}
		case 2:
			if acked.present[i] {
				next.present[i], next.vec[i] = false, nil
			}
		}
		a := write(lead, kind, i, vec)
		verifrt.Quiesce()
		for k := 0; k < verifrt.Bound("waitrounds", 30) && !a.done; k++ {
			round()
			// a write stuck on a deposed or isolated leader: the network heals after a while
			if k == verifrt.Bound("healafter", 24) && net.Isolated() != 0 {
				net.Isolate(0)
				verifrt.Tag("healed")
			}
		}
		answered := a.done && (a.err == nil || a.err == index.ItemAlreadyExistsError || a.err == index.ItemNotFoundError)
		if !answered {
			*inflight = *next
			haveInflight = true
			verifrt.Tag("write-in-flight")
			break
		}
		// the answer must be the truthful one for the acknowledged history
		switch kind {
		case 0:
			verifrt.Assert((a.err == index.ItemAlreadyExistsError) == acked.present[i], "answer-matches-acknowledged-history")
		case 1, 2:
			verifrt.Assert((a.err == index.ItemNotFoundError) == !acked.present[i], "answer-matches-acknowledged-history")
		}
		*acked = *next
		if verifrt.Bound("compact", 0) == 1 && verifrt.Choose("compact", 2) == 1 && lead.alive {
			g := lead.p.raft
			done := make(chan struct{})
			go func() {
				g.VerifTrySnapshot(g.VerifApplied(), 0)
				close(done)
			}()
			select {
			case <-done:
			case <-crashedC:
			}
			verifrt.Tag("compacted")
		}
	}
	verifrt.Reach("written")

	// the faults stop; the crashed replica (a minority) restarts on its database
	armed = false
	net.StopFaults()
	net.DeliverHeld()
	verifrt.Quiesce()
	if crashed {
		r := replicas[crashNode]
		r.db, _ = badger.Open(badger.DefaultOptions(r.dir))
		if !verifC3Start(net, r, ids) {
			verifrt.Assert(false, "restart-loads-raft")
			return
		}
		verifrt.Quiesce()
		verifrt.Reach("restarted")
	}
	// sentinel write until acknowledged
	sentinel := 3
	sentVec := []float32{99}
	var sa *answer
	saRound := 0
	sentOK := false
	for k := 0; k < verifrt.Bound("healrounds", 180) && !sentOK; k++ {
		round()
		if sa != nil && sa.done {
			if sa.err == nil || sa.err == index.ItemAlreadyExistsError {
				sentOK = true
				break
			}
			sa = nil
		}
		if sa != nil && k-saRound >= 50 {
			// proposalTimeout (5 s = 50 ticks): the caller gets a timeout and tries again; a
			// proposal taken by a leader that was then deposed is dropped with its tail
			sa = nil
		}
		if sa == nil && k%10 == 0 {
			if lead := leader(); lead != nil {
				sa = write(lead, 0, sentinel, sentVec)
				saRound = k
				verifrt.Quiesce()
			}
		}
	}
	verifrt.Assert(sentOK, "after-faults-stop-a-write-is-acknowledged")
	if !sentOK {
		return
	}
	for k := 0; k < 30; k++ {
		round()
	}
	matches := func(p *partition, m *verifModel) bool {
		n := m.count() + 1
		if p.index.Len() != n {
			return false
		}
		if v, err := p.index.Get(verifItemId(sentinel)); err != nil || len(v) != 1 || v[0] != sentVec[0] {
			return false
		}
		for i := 0; i < nIds; i++ {
			v, gerr := p.index.Get(verifItemId(i))
			if (gerr == nil) != m.present[i] {
				return false
			}
			if gerr == nil && (len(v) != 1 || v[0] != m.vec[i][0]) {
				return false
			}
		}
		return true
	}
	// all replicas agree on one of the two admissible contents
	allAcked, allInflight := true, haveInflight
	for _, id := range ids {
		r := replicas[id]
		if !matches(r.p, acked) {
			allAcked = false
		}
		if haveInflight && !matches(r.p, inflight) {
			allInflight = false
		}
	}
	verifrt.Assert(allAcked || allInflight, "every-replica-holds-the-acknowledged-history-optionally-plus-the-write-in-flight")
	verifrt.Reach("end")
}

//go:build verif

package storage

import (
	"context"

	"github.com/marekgalovic/anndb/index"
	"github.com/marekgalovic/anndb/index/space"
	"github.com/marekgalovic/anndb/math"
	pb "github.com/marekgalovic/anndb/protobuf"
	uuid "github.com/satori/go.uuid"
	"google.golang.org/grpc/codes"
	"google.golang.org/grpc/status"

	"github.com/marekgalovic/anndb/verifrt"
)

// Harness for C09: Dataset.Search consults every partition exactly once and
// returns exactly the k best of the union, or fails when any worker failed.
// Remote nodes are harness implementations of pb.SearchClient; per-partition
// answers have symbolic scores; worker failures, the replica choice, the
// schedule and every select choice are path decisions.
func VerifC09() {
	verifrt.RaceDetect(verifrt.Bound("race", 0) == 1)
	P := verifrt.IntIn("P", verifrt.Bound("minp", 1), verifrt.Bound("maxp", 2))
	nNodes := verifrt.Bound("nodes", 2)
	maxItems := verifrt.Bound("items", 2)
	verifrt.Preemptions(verifrt.Bound("preempt", 0))
	verifrt.MapOrder(verifrt.Bound("maporder", 0))
	const local = uint64(1)
	placement := make([][]uint64, P)
	spread := verifrt.Bound("spread", 0) == 1 // partition i lives on node 101+i only (one worker per partition)
	for i := range placement {
		if spread {
			placement[i] = []uint64{uint64(101 + i%nNodes)}
			continue
		}
		// replica sets: a path decision among a few shapes
		switch c := verifrt.Choose("placement", nNodes+1); {
		case c < nNodes:
			placement[i] = []uint64{uint64(101 + c)}
		default:
			placement[i] = []uint64{101, 102}
		}
	}
	ds := verifDataset(local, 1, placement)

	// per-partition answers with symbolic scores
	type pans struct {
		scores []float32
	}
	answers := make(map[string]*pans)
	var all []float32
	for i := 0; i < P; i++ {
		n := verifrt.IntIn("nitems", 0, maxItems)
		a := &pans{}
		for j := 0; j < n; j++ {
			s := verifrt.F32Order("score")
			a.scores = append(a.scores, s)
			all = append(all, s)
		}
		answers[string(ds.partitions[i].id.Bytes())] = a
	}
	requested := make(map[string]int)
	anyFail := false
	clients := map[uint64]*verifSearchClient{}
	for ni := 0; ni < nNodes; ni++ {
		node := uint64(101 + ni)
		c := &verifSearchClient{node: node}
		switch verifrt.Choose("fail", verifrt.Bound("failmodes", 3)) {
		case 1:
			c.openFail = true
		case 2:
			c.answer = func(req *pb.SearchPartitionsRequest) ([]*pb.SearchResultItem, int) { return nil, 0 }
		case 3:
			// the stream breaks after it delivered its first item, with a gRPC status error
			// (a node restarting: Unavailable; the connection closing: Canceled; a deadline)
			switch verifrt.Choose("stream-error", 4) {
			case 1:
				c.recvErr = status.Error(codes.Unavailable, "verif: transport is closing")
			case 2:
				c.recvErr = status.Error(codes.Canceled, "verif: the client connection is closing")
			case 3:
				c.recvErr = status.Error(codes.DeadlineExceeded, "verif: deadline")
			}
			midstream := c
			c.answer = func(req *pb.SearchPartitionsRequest) ([]*pb.SearchResultItem, int) {
				var items []*pb.SearchResultItem
				for _, pid := range req.GetPartitionIds() {
					for j, s := range answers[string(pid)].scores {
						items = append(items, &pb.SearchResultItem{Id: verifUUID(byte(16*int(pid[15]) + j)).Bytes(), Score: s})
					}
				}
				verifrt.HarnessLock()
				nth := len(midstream.requests)
				verifrt.HarnessUnlock()
				if len(items) == 0 || nth > 1 {
					// (nothing to deliver first; or a re-opened stream: healthy)
					if len(items) == 0 {
						return items, 0
					}
					return items, -1
				}
				return items, 1
			}
		}
		failing := c.openFail || c.answer != nil
		if c.answer == nil {
			c.answer = func(req *pb.SearchPartitionsRequest) ([]*pb.SearchResultItem, int) {
				var items []*pb.SearchResultItem
				for _, pid := range req.GetPartitionIds() {
					for j, s := range answers[string(pid)].scores {
						items = append(items, &pb.SearchResultItem{Id: verifUUID(byte(16*int(pid[15]) + j)).Bytes(), Score: s})
					}
				}
				return items, -1
			}
		}
		clients[node] = c
		ds.searchClients[node] = c
		_ = failing
	}

	k := verifrt.IntIn("k", verifrt.Bound("mink", 0), verifrt.Bound("maxk", 2))
	res, err := ds.Search(context.Background(), []float32{0}, uint(k))
	verifrt.Reach("searched")

	// which workers were actually contacted, and did any of them fail?
	for _, c := range clients {
		verifrt.HarnessLock()
		reqs := append([]*pb.SearchPartitionsRequest(nil), c.requests...)
		verifrt.HarnessUnlock()
		for _, req := range reqs {
			for _, pid := range req.GetPartitionIds() {
				requested[string(pid)]++
			}
			if c.openFail {
				anyFail = true
			} else if items, failAt := c.answer(req); failAt >= 0 {
				_ = items
				anyFail = true
			}
		}
	}
	if anyFail {
		verifrt.Tag("worker-failed")
		verifrt.Assert(err != nil, "failed-worker-means-error")
	}
	if err != nil {
		return
	}
	for i := 0; i < P; i++ {
		verifrt.Assert(requested[string(ds.partitions[i].id.Bytes())] == 1, "every-partition-consulted-exactly-once")
	}
	want := k
	if len(all) < want {
		want = len(all)
	}
	verifrt.Assert(len(res) == want, "returns-min-k-total-items")
	for i, item := range res {
		less, lessEq := 0, 0
		for _, s := range all {
			less += verifrt.B2I(s < item.Score)
			lessEq += verifrt.B2I(s <= item.Score)
		}
		verifrt.Assert(less <= i, "score-not-larger-than-rank-allows")
		verifrt.Assert(lessEq >= i+1, "score-not-smaller-than-rank-allows")
	}
	verifrt.Reach("end")
}

// VerifC09Cluster: Dataset.Search end to end over two remote nodes that are
// real Datasets with real local partitions and real indexes: the entry node's
// search clients call the remote Dataset.SearchPartitions (the service layer
// in between only converts types). Vectors and the query are solver variables.
// Replicated partitions hold the same items on both replicas. The answer must
// be the k best of the whole dataset under the true distances, each item with
// its true score, no id twice (a replicated partition is consulted on exactly
// one replica), or an error when a partition id is unknown to the node asked.
func VerifC09Cluster() {
	verifrt.RaceDetect(verifrt.Bound("race", 0) == 1)
	P := verifrt.IntIn("P", 1, verifrt.Bound("maxp", 2))
	maxItems := verifrt.Bound("items", 2)
	grid := verifrt.Bound("grid", 15)
	verifrt.Preemptions(verifrt.Bound("preempt", 0))
	verifrt.MapOrder(verifrt.Bound("maporder", 0))
	placement := make([][]uint64, P)
	for i := range placement {
		switch verifrt.Choose("placement", 3) {
		case 0:
			placement[i] = []uint64{101}
		case 1:
			placement[i] = []uint64{102}
		default:
			placement[i] = []uint64{101, 102}
		}
	}
	entry := verifDataset(1, 1, placement)
	remote := map[uint64]*Dataset{101: verifDataset(101, 1, placement), 102: verifDataset(102, 1, placement)}
	hosts := func(i int, node uint64) bool {
		for _, n := range placement[i] {
			if n == node {
				return true
			}
		}
		return false
	}
	newIndex := func() *index.Hnsw {
		return index.NewHnsw(1, space.NewManhattan(), index.HnswM(2), index.HnswMmax(2), index.HnswMmax0(4),
			index.HnswEf(2), index.HnswEfConstruction(2), index.HnswLevelMultiplier(1))
	}
	// a node that was dropped from a partition's replica set may not have it loaded any more
	stale := verifrt.Bound("stale", 1) == 1 && verifrt.Choose("one-replica-not-loaded", 2) == 1
	for node, d := range remote {
		for i := 0; i < P; i++ {
			if hosts(i, node) {
				d.partitions[i].index = newIndex()
			}
		}
	}
	type item struct {
		id  uuid.UUID
		vec float32
	}
	var all []item
	for i := 0; i < P; i++ {
		n := verifrt.IntIn("nitems", 0, maxItems)
		for j := 0; j < n; j++ {
			it := item{id: verifUUID(byte(16*(i+1) + j)), vec: verifrt.F32Grid("vec", 0, grid)}
			all = append(all, it)
			for _, d := range remote {
				if d.partitions[i].index != nil {
					if d.partitions[i].index.Insert(it.id, math.Vector{it.vec}, nil, 0) != nil {
						verifrt.Assert(false, "setup-insert-succeeds")
						return
					}
				}
			}
		}
	}
	if stale {
		// node 102 does not know partition 0 any more although the entry node's catalogue lists it
		delete(remote[102].partitionsMap, remote[102].partitions[0].id)
		verifrt.Tag("replica-not-loaded")
	}
	asked102ForP0 := false
	for node, d := range remote {
		node, d := node, d
		c := &verifSearchClient{node: node}
		c.answer = func(req *pb.SearchPartitionsRequest) ([]*pb.SearchResultItem, int) {
			pids := make([]uuid.UUID, len(req.GetPartitionIds()))
			for i, b := range req.GetPartitionIds() {
				pids[i] = uuid.FromBytesOrNil(b)
				if node == 102 && pids[i] == entry.partitions[0].id {
					asked102ForP0 = true
				}
			}
			res, err := d.SearchPartitions(context.Background(), pids, req.GetQuery(), uint(req.GetK()))
			if err != nil {
				return nil, 0
			}
			out := make([]*pb.SearchResultItem, len(res))
			for i, r := range res {
				out[i] = &pb.SearchResultItem{Id: r.Id.Bytes(), Metadata: r.Metadata, Score: r.Score}
			}
			return out, -1
		}
		entry.searchClients[node] = c
	}
	q := verifrt.F32Grid("query", 0, grid)
	k := verifrt.IntIn("k", 0, verifrt.Bound("maxk", 3))
	res, err := entry.Search(context.Background(), math.Vector{q}, uint(k))
	verifrt.Reach("searched")
	if stale && asked102ForP0 {
		verifrt.Assert(err != nil, "unknown-partition-on-the-asked-node-means-error")
	}
	if err != nil {
		verifrt.Assert(stale && asked102ForP0, "healthy-cluster-search-succeeds")
		return
	}
	want := k
	if len(all) < want {
		want = len(all)
	}
	verifrt.Assert(len(res) == want, "returns-min-k-total-items")
	sp := space.NewManhattan()
	for i, r := range res {
		var src *item
		for j := range all {
			if all[j].id == r.Id {
				src = &all[j]
			}
		}
		verifrt.Assert(src != nil, "returned-item-is-stored")
		if src == nil {
			continue
		}
		verifrt.Assert(r.Score == sp.Distance(math.Vector{q}, math.Vector{src.vec}), "score-is-true-distance")
		for j := 0; j < i; j++ {
			verifrt.Assert(res[j].Id != r.Id, "no-id-twice")
		}
		less, lessEq := 0, 0
		for _, it := range all {
			d := sp.Distance(math.Vector{q}, math.Vector{it.vec})
			less += verifrt.B2I(d < r.Score)
			lessEq += verifrt.B2I(d <= r.Score)
		}
		verifrt.Assert(less <= i, "score-not-larger-than-rank-allows")
		verifrt.Assert(lessEq >= i+1, "score-not-smaller-than-rank-allows")
	}
	verifrt.Reach("end")
}

// VerifC09Many: datasets with many partitions per node (17, 33), where code that
// splits, chunks or caps per-node work would show. Scores are concrete and
// distinct (partition i answers one item with score P-i), placements are one or
// two nodes; one schedule. Every partition must be consulted exactly once and
// the answer must be the k best of all P items in ascending order.
func VerifC09Many() {
	verifrt.SchedDeterministic(true)
	P := 17
	if verifrt.Choose("partitions", 2) == 1 {
		P = 33
	}
	twoNodes := verifrt.Choose("nodes", 2) == 1
	const local = uint64(1)
	placement := make([][]uint64, P)
	for i := range placement {
		placement[i] = []uint64{101}
		if twoNodes && i == 0 {
			placement[i] = []uint64{102}
		}
	}
	ds := verifDataset(local, 1, placement)
	score := map[string]float32{}
	for i, p := range ds.partitions {
		score[string(p.id.Bytes())] = float32(P - i)
	}
	asked := map[string]int{}
	for _, node := range []uint64{101, 102} {
		c := &verifSearchClient{node: node}
		c.answer = func(req *pb.SearchPartitionsRequest) ([]*pb.SearchResultItem, int) {
			var items []*pb.SearchResultItem
			for _, pid := range req.GetPartitionIds() {
				verifrt.HarnessLock()
				asked[string(pid)]++
				verifrt.HarnessUnlock()
				items = append(items, &pb.SearchResultItem{Id: pid, Score: score[string(pid)]})
			}
			return items, -1
		}
		ds.searchClients[node] = c
	}
	k := 3
	if verifrt.Choose("k", 2) == 1 {
		k = P
	}
	res, err := ds.Search(context.Background(), []float32{0}, uint(k))
	verifrt.Quiesce()
	verifrt.Assert(err == nil, "healthy-search-succeeds")
	if err != nil {
		return
	}
	for _, p := range ds.partitions {
		verifrt.Assert(asked[string(p.id.Bytes())] == 1, "every-partition-consulted-exactly-once")
	}
	verifrt.Assert(len(res) == k, "exactly-k-of-the-union")
	for j := range res {
		// the k best scores of P, P-1, ..., 1 are 1, 2, ..., k
		verifrt.Assert(res[j].Score == float32(j+1), "result-is-the-k-best-of-the-union-in-order")
	}
	verifrt.Reach("many-end")
}

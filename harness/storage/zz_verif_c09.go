//go:build verif

package storage

import (
	"context"

	pb "github.com/marekgalovic/anndb/protobuf"

	"github.com/marekgalovic/anndb/verifrt"
)

// Harness for C09: Dataset.Search consults every partition exactly once and
// returns exactly the k best of the union, or fails when any worker failed.
// Remote nodes are harness implementations of pb.SearchClient; per-partition
// answers have symbolic scores; worker failures, the replica choice, the
// schedule and every select choice are path decisions.
func VerifC09() {
	P := verifrt.IntIn("P", 1, verifrt.Bound("maxp", 2))
	nNodes := verifrt.Bound("nodes", 2)
	maxItems := verifrt.Bound("items", 2)
	verifrt.Preemptions(verifrt.Bound("preempt", 0))
	verifrt.MapOrder(verifrt.Bound("maporder", 0))
	const local = uint64(1)
	placement := make([][]uint64, P)
	for i := range placement {
		// replica sets: a path decision among a few shapes
		switch verifrt.Choose("placement", nNodes+1) {
		case 0:
			placement[i] = []uint64{101}
		case 1:
			placement[i] = []uint64{102}
		default:
			placement[i] = []uint64{101, 102}
		}
	}
	ds := verifDataset(local, 1, placement)

	// per-partition answers with symbolic scores
	type pans struct {
		scores []float32
	}
	answers := make(map[string]*pans)
	var all []float32
	for i := 0; i < P; i++ {
		n := verifrt.IntIn("nitems", 0, maxItems)
		a := &pans{}
		for j := 0; j < n; j++ {
			s := verifrt.F32Order("score")
			a.scores = append(a.scores, s)
			all = append(all, s)
		}
		answers[string(ds.partitions[i].id.Bytes())] = a
	}
	requested := make(map[string]int)
	anyFail := false
	clients := map[uint64]*verifSearchClient{}
	for _, node := range []uint64{101, 102} {
		node := node
		c := &verifSearchClient{node: node}
		switch verifrt.Choose("fail", verifrt.Bound("failmodes", 3)) {
		case 1:
			c.openFail = true
		case 2:
			c.answer = func(req *pb.SearchPartitionsRequest) ([]*pb.SearchResultItem, int) { return nil, 0 }
		}
		failing := c.openFail || c.answer != nil
		if c.answer == nil {
			c.answer = func(req *pb.SearchPartitionsRequest) ([]*pb.SearchResultItem, int) {
				var items []*pb.SearchResultItem
				for _, pid := range req.GetPartitionIds() {
					for j, s := range answers[string(pid)].scores {
						items = append(items, &pb.SearchResultItem{Id: verifUUID(byte(16*int(pid[15]) + j)).Bytes(), Score: s})
					}
				}
				return items, -1
			}
		}
		clients[node] = c
		ds.searchClients[node] = c
		_ = failing
	}

	k := verifrt.IntIn("k", 0, verifrt.Bound("maxk", 2))
	res, err := ds.Search(context.Background(), []float32{0}, uint(k))
	verifrt.Reach("searched")

	// which workers were actually contacted, and did any of them fail?
	for _, c := range clients {
		for _, req := range c.requests {
			for _, pid := range req.GetPartitionIds() {
				requested[string(pid)]++
			}
			if c.openFail {
				anyFail = true
			} else if items, failAt := c.answer(req); failAt >= 0 {
				_ = items
				anyFail = true
			}
		}
	}
	if anyFail {
		verifrt.Tag("worker-failed")
		verifrt.Assert(err != nil, "failed-worker-means-error")
	}
	if err != nil {
		return
	}
	for i := 0; i < P; i++ {
		verifrt.Assert(requested[string(ds.partitions[i].id.Bytes())] == 1, "every-partition-consulted-exactly-once")
	}
	want := k
	if len(all) < want {
		want = len(all)
	}
	verifrt.Assert(len(res) == want, "returns-min-k-total-items")
	for i, item := range res {
		less, lessEq := 0, 0
		for _, s := range all {
			less += verifrt.B2I(s < item.Score)
			lessEq += verifrt.B2I(s <= item.Score)
		}
		verifrt.Assert(less <= i, "score-not-larger-than-rank-allows")
		verifrt.Assert(lessEq >= i+1, "score-not-smaller-than-rank-allows")
	}
	verifrt.Reach("end")
}

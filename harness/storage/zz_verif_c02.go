//go:build verif

package storage

import (
	"errors"
	"strconv"
	"strings"
	"sync"

	"github.com/marekgalovic/anndb/index"
	"github.com/marekgalovic/anndb/index/space"
	"github.com/marekgalovic/anndb/math"
	pb "github.com/marekgalovic/anndb/protobuf"
	"github.com/marekgalovic/anndb/utils"
	"github.com/golang/protobuf/proto"
	uuid "github.com/satori/go.uuid"

	"github.com/marekgalovic/anndb/verifrt"
)

// Stand-alone partition: the real apply path (partition.process and the six
// *Value functions) over a real index.Hnsw, no raft, no WAL.

type verifIdxCfg struct{ m, mMax0, ef, efC int }

func verifIdxConfigs() []verifIdxCfg {
	return []verifIdxCfg{{1, 1, 1, 1}, {1, 2, 2, 2}, {2, 4, 3, 2}, {16, 32, 20, 200}}
}

func verifPartition(dim int, c verifIdxCfg) *partition {
	idx := index.NewHnsw(uint(dim), space.NewManhattan(),
		index.HnswM(c.m), index.HnswMmax(c.m), index.HnswMmax0(c.mMax0), index.HnswEf(c.ef),
		index.HnswEfConstruction(c.efC), index.HnswLevelMultiplier(1))
	return &partition{
		id:          verifUUID(0x01),
		index:       idx,
		raftMu:      &sync.RWMutex{},
		notificator: utils.NewNotificator(),
		log:         verifLogEntry(),
	}
}

// id universe shared with the index harnesses: ids 0,1 share a vertex shard.
func verifItemId(i int) uuid.UUID {
	var u uuid.UUID
	u[15] = 0xA0
	switch i {
	case 0:
		u[0] = 0x01
	case 1:
		u[0] = 0x11
	default:
		u[0] = byte(i)
	}
	return u
}

func verifItemIndex(id uuid.UUID) int {
	for i := 0; i < 6; i++ {
		if uuid.Equal(verifItemId(i), id) {
			return i
		}
	}
	return -1
}

// verifMeta enumerates metadata shapes: nil, empty, one key, two keys.
func verifMeta(tag string) map[string]string {
	n := verifrt.Bound("metashapes", 4)
	c := verifrt.Choose("meta", n+verifrt.Bound("longmeta", 0))
	if c >= n {
		// a key the snapshot format cannot represent (length stored in one byte)
		return map[string]string{strings.Repeat("K", 256): "v"}
	}
	switch c {
	case 0:
		return nil
	case 1:
		return map[string]string{"a": "x" + tag}
	case 2:
		return map[string]string{"a": "yy" + tag, "b": "z"}
	default:
		return map[string]string{}
	}
}

// verifMetaTooLarge: metadata that cannot be saved and loaded again; a change
// that would store it must be refused with an error and change nothing.
func verifMetaTooLarge(md map[string]string) bool {
	if len(md) > 65535 {
		return true
	}
	for k, v := range md {
		if len(k) > 255 || len(v) > 65535 {
			return true
		}
	}
	return false
}

var verifAnyErr = errors.New("any error")

type verifModel struct {
	present [6]bool
	vec     [6]math.Vector
	meta    [6]map[string]string
}

func (m *verifModel) count() int {
	n := 0
	for _, p := range m.present {
		if p {
			n++
		}
	}
	return n
}

func (m *verifModel) dataBytes(dim int) uint64 {
	var n uint64
	for i, p := range m.present {
		if p {
			n += 16 + 4*uint64(dim)
			for k, v := range m.meta[i] {
				n += uint64(len(k) + len(v))
			}
		}
	}
	return n
}

func copyMeta(m map[string]string) map[string]string {
	if m == nil {
		return nil
	}
	c := make(map[string]string, len(m))
	for k, v := range m {
		c[k] = v
	}
	return c
}

// verifLog collects the marshalled changes in apply order (the replicated log).
var verifLog [][]byte

// apply sends one change through the real process() and returns the outcome
// that the apply loop delivered to the proposer's notification channel.
func verifApply(p *partition, change *pb.PartitionChange) (interface{}, bool) {
	notifC, notifId := p.notificator.Create(1)
	defer p.notificator.Remove(notifId)
	change.NotificationId = notifId.Bytes()
	data, err := proto.Marshal(change)
	if err != nil {
		panic(err)
	}
	verifLog = append(verifLog, data)
	if err := p.process(data); err != nil {
		verifrt.Tag("apply-returned-error")
		verifrt.Assert(false, "apply-never-returns-error")
		return nil, false
	}
	select {
	case res := <-notifC:
		return res, true
	default:
		return nil, false
	}
}

func sameMeta(a index.Metadata, b map[string]string) bool {
	if len(a) != len(b) {
		return false
	}
	for k, v := range b {
		if av, ok := a[k]; !ok || av != v {
			return false
		}
	}
	return true
}

// verifStep performs one symbolic change on partition p and the model m and
// checks outcome + contents. Returns false when the path should stop.
func verifStep(p *partition, m *verifModel, dim, nIds, grid int, step int, kinds int) {
	tag := string(rune('0' + step))
	kind := verifrt.Choose("kind", kinds)
	switch kind {
	case 0, 1, 2: // single insert / update / delete
		i := verifrt.IntIn("id", 0, nIds-1)
		change := &pb.PartitionChange{Id: verifItemId(i).Bytes()}
		var vec math.Vector
		var md map[string]string
		switch kind {
		case 0:
			change.Type = pb.PartitionChangeType_PartitionChangeInsertValue
			vec = make(math.Vector, dim)
			for d := range vec {
				vec[d] = verifrt.F32Grid("vec", 0, grid)
			}
			md = verifMeta(tag)
			change.Value, change.Metadata = vec, md
			change.Level = int32(verifrt.IntIn("level", 0, verifrt.Bound("maxlevel", 1)))
		case 1:
			change.Type = pb.PartitionChangeType_PartitionChangeUpdateValue
			vec = make(math.Vector, dim)
			for d := range vec {
				vec[d] = verifrt.F32Grid("vec", 0, grid)
			}
			md = verifMeta(tag)
			change.Value, change.Metadata = vec, md
		case 2:
			change.Type = pb.PartitionChangeType_PartitionChangeDeleteValue
		}
		res, got := verifApply(p, change)
		verifrt.Assert(got, "outcome-delivered")
		var err error
		if res != nil {
			err = res.(error)
		}
		switch kind {
		case 0:
			if verifMetaTooLarge(md) {
				verifrt.Assert(err != nil, "unrepresentable-metadata-refused")
			} else if m.present[i] {
				verifrt.Assert(err == index.ItemAlreadyExistsError, "insert-existing-reports-already-exists")
			} else {
				verifrt.Assert(err == nil, "insert-new-ok")
				m.present[i], m.vec[i], m.meta[i] = true, vec, copyMeta(md)
			}
		case 1:
			if !m.present[i] {
				verifrt.Assert(err == index.ItemNotFoundError, "update-absent-reports-not-found")
			} else {
				merged := copyMeta(md)
				if merged == nil {
					merged = map[string]string{}
				}
				for k, v := range m.meta[i] {
					if _, ok := merged[k]; !ok {
						merged[k] = v
					}
				}
				if verifMetaTooLarge(merged) {
					verifrt.Assert(err != nil, "unrepresentable-metadata-refused")
				} else {
					verifrt.Assert(err == nil, "update-existing-ok")
					m.vec[i], m.meta[i] = vec, merged
				}
			}
		case 2:
			if !m.present[i] {
				verifrt.Assert(err == index.ItemNotFoundError, "remove-absent-reports-not-found")
			} else {
				verifrt.Assert(err == nil, "remove-existing-ok")
				m.present[i], m.vec[i], m.meta[i] = false, nil, nil
			}
		}
	default: // batch forms: 3 insert, 4 update, 5 delete; two items (ids may coincide)
		var items []*pb.BatchItem
		ids := make([]int, 2)
		vecs := make([]math.Vector, 2)
		mds := make([]map[string]string, 2)
		for j := 0; j < 2; j++ {
			ids[j] = verifrt.IntIn("id", 0, nIds-1)
			it := &pb.BatchItem{Id: verifItemId(ids[j]).Bytes()}
			if kind != 5 {
				vecs[j] = make(math.Vector, dim)
				for d := range vecs[j] {
					vecs[j][d] = verifrt.F32Grid("vec", 0, grid)
				}
				mds[j] = verifMeta(tag + string(rune('a'+j)))
				it.Value, it.Metadata = vecs[j], mds[j]
			}
			if kind == 3 {
				it.Level = int32(verifrt.IntIn("level", 0, verifrt.Bound("maxlevel", 1)))
			}
			items = append(items, it)
		}
		change := &pb.PartitionChange{BatchItems: items}
		switch kind {
		case 3:
			change.Type = pb.PartitionChangeType_PartitionChangeBatchInsertValue
		case 4:
			change.Type = pb.PartitionChangeType_PartitionChangeBatchUpdateValue
		case 5:
			change.Type = pb.PartitionChangeType_PartitionChangeBatchDeleteValue
		}
		res, got := verifApply(p, change)
		verifrt.Assert(got, "outcome-delivered")
		if !got {
			return
		}
		errs := res.(partitionBatchResult)
		// sequential reference, item by item; a later item on the same id overrides the
		// per-id error entry exactly as a map keyed by id would
		want := map[int]error{}
		for j := 0; j < 2; j++ {
			i := ids[j]
			switch kind {
			case 3:
				if verifMetaTooLarge(mds[j]) {
					want[i] = verifAnyErr
				} else if m.present[i] {
					want[i] = index.ItemAlreadyExistsError
				} else {
					m.present[i], m.vec[i], m.meta[i] = true, vecs[j], copyMeta(mds[j])
				}
			case 4:
				if !m.present[i] {
					want[i] = index.ItemNotFoundError
				} else {
					merged := copyMeta(mds[j])
					if merged == nil {
						merged = map[string]string{}
					}
					for k, v := range m.meta[i] {
						if _, ok := merged[k]; !ok {
							merged[k] = v
						}
					}
					if verifMetaTooLarge(merged) {
						want[i] = verifAnyErr
					} else {
						m.vec[i], m.meta[i] = vecs[j], merged
					}
				}
			case 5:
				if !m.present[i] {
					want[i] = index.ItemNotFoundError
				} else {
					m.present[i], m.vec[i], m.meta[i] = false, nil, nil
				}
			}
		}
		verifrt.Assert(len(errs) == len(want), "batch-errors-for-exactly-the-failed-ids")
		for i, w := range want {
			if w == verifAnyErr {
				verifrt.Assert(errs[verifItemId(i)] != nil, "unrepresentable-metadata-refused")
				continue
			}
			verifrt.Assert(errs[verifItemId(i)] == w, "batch-error-kind")
		}
	}
}

func verifCheckContents(p *partition, m *verifModel, dim, nIds int, linkPerItem uint64) {
	verifrt.Assert(p.index.Len() == m.count(), "len-equals-live-count")
	for i := 0; i < nIds; i++ {
		v, err := p.index.Get(verifItemId(i))
		if m.present[i] {
			verifrt.Assert(err == nil, "live-id-retrievable")
			if err != nil {
				continue
			}
			ok := len(v) == len(m.vec[i])
			if ok {
				for d := range v {
					verifrt.Assert(v[d] == m.vec[i][d], "vector-is-current")
				}
			}
			verifrt.Assert(ok, "vector-dimension")
			vx, _ := p.index.GetVertex(verifItemId(i))
			verifrt.Assert(sameMeta(vx.Metadata(), m.meta[i]), "metadata-is-current")
		} else {
			verifrt.Assert(err == index.ItemNotFoundError, "absent-id-not-retrievable")
		}
	}
	if linkPerItem > 0 {
		want := uint64(m.count())*linkPerItem + m.dataBytes(dim)
		verifrt.Assert(p.index.BytesSize() == want, "bytes-size-accounts-for-live-items-exactly")
	}
}

func VerifC02() {
	L := verifrt.Bound("ops", 3)
	dim := verifrt.Bound("dim", 1)
	grid := verifrt.Bound("grid", 15)
	nIds := verifrt.Bound("ids", 3)
	kinds := verifrt.Bound("kinds", 6)
	cfgs := verifIdxConfigs()
	ci := verifrt.Bound("cfg", 0)
	p := verifPartition(dim, cfgs[ci])
	m := &verifModel{}
	// levels <= 1: the link estimate of BytesSize is Len*(mMax0*12+24) exactly
	var link uint64
	if verifrt.Bound("maxlevel", 1) <= 1 {
		link = uint64(cfgs[ci].mMax0*index.HNSW_VERTEX_EDGE_BYTES + index.HNSW_VERTEX_MUTEX_BYTES)
	}
	for step := 0; step < L; step++ {
		verifStep(p, m, dim, nIds, grid, step, kinds)
		verifCheckContents(p, m, dim, nIds, link)
	}
	verifrt.Reach("end")
}

// VerifC02BigMeta: the entry-count limit of the snapshot format (65535 metadata
// entries per item) on the update path, where the stored and the new metadata
// are merged: each map is representable on its own, the union is not. The
// update (single or batch) must be refused and change nothing.
func VerifC02BigMeta() {
	n := verifrt.Bound("keys", 40000)
	p := verifPartition(1, verifIdxConfigs()[0])
	mk := func(prefix string) map[string]string {
		m := make(map[string]string, n)
		for i := 0; i < n; i++ {
			m[prefix+strconv.Itoa(i)] = "v"
		}
		return m
	}
	metaA, metaB := mk("a"), mk("b")
	res, got := verifApply(p, &pb.PartitionChange{Type: pb.PartitionChangeType_PartitionChangeInsertValue, Id: verifItemId(0).Bytes(), Value: []float32{1}, Metadata: metaA})
	verifrt.Assert(got && res == nil, "insert-new-ok")
	sizeBefore := p.index.BytesSize()
	batch := verifrt.Choose("batch", 2) == 1
	var err error
	if batch {
		res, got = verifApply(p, &pb.PartitionChange{Type: pb.PartitionChangeType_PartitionChangeBatchUpdateValue,
			BatchItems: []*pb.BatchItem{{Id: verifItemId(0).Bytes(), Value: []float32{2}, Metadata: metaB}}})
		verifrt.Assert(got, "outcome-delivered")
		if got {
			err = res.(partitionBatchResult)[verifItemId(0)]
		}
	} else {
		res, got = verifApply(p, &pb.PartitionChange{Type: pb.PartitionChangeType_PartitionChangeUpdateValue, Id: verifItemId(0).Bytes(), Value: []float32{2}, Metadata: metaB})
		verifrt.Assert(got, "outcome-delivered")
		if res != nil {
			err = res.(error)
		}
	}
	verifrt.Assert(err != nil, "unrepresentable-metadata-refused")
	v, gerr := p.index.Get(verifItemId(0))
	verifrt.Assert(gerr == nil && len(v) == 1 && v[0] == 1, "refused-update-changes-nothing")
	verifrt.Assert(p.index.Len() == 1 && p.index.BytesSize() == sizeBefore, "refused-update-changes-nothing")
	if vx, verr := p.index.GetVertex(verifItemId(0)); verr == nil {
		verifrt.Assert(len(vx.Metadata()) == n, "refused-update-changes-nothing")
	}
	verifrt.Reach("bigmeta-end")
}

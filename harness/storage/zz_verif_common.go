//go:build verif

package storage

import (
	"context"
	"errors"
	"io"
	"io/ioutil"
	"sync"

	"github.com/marekgalovic/anndb/cluster"
	pb "github.com/marekgalovic/anndb/protobuf"
	"github.com/marekgalovic/anndb/verifrt"
	uuid "github.com/satori/go.uuid"
	"github.com/sirupsen/logrus"
	"google.golang.org/grpc"
	"google.golang.org/grpc/codes"
	"google.golang.org/grpc/status"
)

// Shared harness helpers for package storage: stub gRPC clients (the client
// types are Go interfaces, so harnesses implement them directly) and
// stand-alone datasets/partitions built without Badger, raft or the network.

var errVerifRemote = errors.New("verif: remote failure")

type verifCall struct {
	method      string
	partitionId []byte
	id          []byte
	items       int
}

type verifDMClient struct {
	node  uint64
	calls []verifCall
	// behaviour
	fail      bool
	infoLen   map[string]uint64 // by partition id string
	infoBytes map[string]uint64
	infoFail  map[string]bool
	infoFailStatus codes.Code
	batchErrs map[string]string
}

func (c *verifDMClient) rec(m string, pid, id []byte, n int) {
	verifrt.HarnessLock()
	c.calls = append(c.calls, verifCall{m, pid, id, n})
	verifrt.HarnessUnlock()
}

// getCalls: the calls recorded so far (the code under test may still have
// goroutines running when the harness looks)
func (c *verifDMClient) getCalls() []verifCall {
	verifrt.HarnessLock()
	defer verifrt.HarnessUnlock()
	return append([]verifCall(nil), c.calls...)
}

func (c *verifDMClient) Insert(ctx context.Context, in *pb.InsertRequest, opts ...grpc.CallOption) (*pb.EmptyMessage, error) {
	c.rec("Insert", nil, in.GetId(), 1)
	if c.fail {
		return nil, errVerifRemote
	}
	return &pb.EmptyMessage{}, nil
}
func (c *verifDMClient) Update(ctx context.Context, in *pb.UpdateRequest, opts ...grpc.CallOption) (*pb.EmptyMessage, error) {
	c.rec("Update", nil, in.GetId(), 1)
	if c.fail {
		return nil, errVerifRemote
	}
	return &pb.EmptyMessage{}, nil
}
func (c *verifDMClient) Remove(ctx context.Context, in *pb.RemoveRequest, opts ...grpc.CallOption) (*pb.EmptyMessage, error) {
	c.rec("Remove", nil, in.GetId(), 1)
	if c.fail {
		return nil, errVerifRemote
	}
	return &pb.EmptyMessage{}, nil
}
func (c *verifDMClient) batch(m string, pid []byte, items []*pb.BatchItem) (*pb.BatchResponse, error) {
	var first []byte
	if len(items) > 0 {
		first = items[0].GetId()
	}
	c.rec(m, pid, first, len(items))
	if c.fail {
		return nil, errVerifRemote
	}
	return &pb.BatchResponse{Errors: c.batchErrs}, nil
}
func (c *verifDMClient) BatchInsert(ctx context.Context, in *pb.BatchRequest, opts ...grpc.CallOption) (*pb.BatchResponse, error) {
	return c.batch("BatchInsert", nil, in.GetItems())
}
func (c *verifDMClient) BatchUpdate(ctx context.Context, in *pb.BatchRequest, opts ...grpc.CallOption) (*pb.BatchResponse, error) {
	return c.batch("BatchUpdate", nil, in.GetItems())
}
func (c *verifDMClient) BatchRemove(ctx context.Context, in *pb.BatchRequest, opts ...grpc.CallOption) (*pb.BatchResponse, error) {
	return c.batch("BatchRemove", nil, in.GetItems())
}
func (c *verifDMClient) PartitionBatchInsert(ctx context.Context, in *pb.PartitionBatchRequest, opts ...grpc.CallOption) (*pb.BatchResponse, error) {
	return c.batch("PartitionBatchInsert", in.GetPartitionId(), in.GetItems())
}
func (c *verifDMClient) PartitionBatchUpdate(ctx context.Context, in *pb.PartitionBatchRequest, opts ...grpc.CallOption) (*pb.BatchResponse, error) {
	return c.batch("PartitionBatchUpdate", in.GetPartitionId(), in.GetItems())
}
func (c *verifDMClient) PartitionBatchRemove(ctx context.Context, in *pb.PartitionBatchRequest, opts ...grpc.CallOption) (*pb.BatchResponse, error) {
	return c.batch("PartitionBatchRemove", in.GetPartitionId(), in.GetItems())
}
func (c *verifDMClient) PartitionInfo(ctx context.Context, in *pb.PartitionInfoRequest, opts ...grpc.CallOption) (*pb.PartitionInfoResponse, error) {
	c.rec("PartitionInfo", in.GetPartitionId(), nil, 0)
	k := string(in.GetPartitionId())
	if c.fail || c.infoFail[k] {
		if c.infoFailStatus != 0 {
			// a gRPC status error, as a real client returns them (e.g. Canceled: "the client connection is closing")
			return nil, status.Error(c.infoFailStatus, "verif: remote failure")
		}
		return nil, errVerifRemote
	}
	if _, ok := c.infoLen[k]; !ok {
		return nil, PartitionNotOnNodeErr
	}
	return &pb.PartitionInfoResponse{Len: c.infoLen[k], BytesSize: c.infoBytes[k]}, nil
}

// search client stub -----------------------------------------------------

type verifSearchStream struct {
	grpc.ClientStream
	items   []*pb.SearchResultItem
	at      int
	failAt  int // index at which Recv fails (-1: never)
	recvErr error
}

func (s *verifSearchStream) Recv() (*pb.SearchResultItem, error) {
	if s.failAt >= 0 && s.at == s.failAt {
		if s.recvErr != nil {
			return nil, s.recvErr
		}
		return nil, errVerifRemote
	}
	if s.at >= len(s.items) {
		return nil, io.EOF
	}
	it := s.items[s.at]
	s.at++
	return it, nil
}

type verifSearchClient struct {
	node     uint64
	requests []*pb.SearchPartitionsRequest
	openFail bool
	recvErr  error // what a failing Recv returns (nil: a plain error)
	// answer for a request is produced by this function
	answer func(req *pb.SearchPartitionsRequest) ([]*pb.SearchResultItem, int)
}

func (c *verifSearchClient) Search(ctx context.Context, in *pb.SearchRequest, opts ...grpc.CallOption) (pb.Search_SearchClient, error) {
	return nil, errVerifRemote
}

func (c *verifSearchClient) SearchPartitions(ctx context.Context, in *pb.SearchPartitionsRequest, opts ...grpc.CallOption) (pb.Search_SearchPartitionsClient, error) {
	verifrt.HarnessLock()
	c.requests = append(c.requests, in)
	verifrt.HarnessUnlock()
	if c.openFail {
		return nil, errVerifRemote
	}
	items, failAt := c.answer(in)
	return &verifSearchStream{items: items, failAt: failAt, recvErr: c.recvErr}, nil
}

// datasets -----------------------------------------------------------------

func verifUUID(b byte) uuid.UUID {
	var u uuid.UUID
	u[0] = 0xAB
	u[15] = b
	return u
}

// verifDataset builds a Dataset with the given partition placement
// (nodeIds[i] = replica set of partition i) as seen from node `local`.
// No raft, no WAL, no index: callers attach what they need.
func verifDataset(local uint64, dim uint32, nodeIds [][]uint64) *Dataset {
	conn, err := cluster.NewConn(local, "local:0", "")
	if err != nil {
		panic(err)
	}
	meta := &pb.Dataset{
		Id:                verifUUID(0xD0).Bytes(),
		Dimension:         dim,
		PartitionCount:    uint32(len(nodeIds)),
		ReplicationFactor: 1,
	}
	d := &Dataset{
		id:                   verifUUID(0xD0),
		meta:                 meta,
		clusterConn:          conn,
		partitions:           make([]*partition, len(nodeIds)),
		partitionsMap:        make(map[uuid.UUID]*partition),
		partitionsMu:         &sync.RWMutex{},
		searchClients:        make(map[uint64]pb.SearchClient),
		searchClientsMu:      &sync.RWMutex{},
		dataManagerClients:   make(map[uint64]pb.DataManagerClient),
		dataManagerClientsMu: &sync.RWMutex{},
	}
	for i := range nodeIds {
		pid := verifUUID(byte(i + 1))
		pm := &pb.Partition{Id: pid.Bytes(), NodeIds: nodeIds[i]}
		meta.Partitions = append(meta.Partitions, pm)
		p := &partition{id: pid, meta: pm, dataset: d, raftMu: &sync.RWMutex{}, log: verifLogEntry()}
		d.partitions[i] = p
		d.partitionsMap[pid] = p
	}
	return d
}

// verifLogEntry: a logger for harness-built partitions. Natively it discards
// its output; in the symbolic run logging is a no-op on any receiver.
func verifLogEntry() *logrus.Entry {
	if verifrt.IsSymbolicRun() {
		return nil
	}
	l := logrus.New()
	l.SetOutput(ioutil.Discard)
	return logrus.NewEntry(l)
}

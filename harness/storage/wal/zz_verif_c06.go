//go:build verif

package wal

import (
	etcdRaft "github.com/coreos/etcd/raft"
	"github.com/coreos/etcd/raft/raftpb"
	badger "github.com/dgraph-io/badger/v2"
	uuid "github.com/satori/go.uuid"

	"github.com/marekgalovic/anndb/verifrt"
)

// Harness for C06: the Badger-backed raft log answers exactly like etcd's
// reference MemoryStorage (real code, executed as well) for every legal call
// sequence, per group, across reopen. Call kinds and indexes are path
// decisions, terms are solver variables (single-byte varints), the Badger
// engine is the API-level model (natively: a real in-memory Badger).

func verifErrClass(err error) int {
	switch err {
	case nil:
		return 0
	case etcdRaft.ErrCompacted:
		return 1
	case etcdRaft.ErrUnavailable:
		return 2
	case etcdRaft.ErrSnapOutOfDate:
		return 3
	}
	return 9
}

// verifRefSave drives the reference storage the way the raft library's
// contract says a Ready must be persisted: append the entries, store the hard
// state if it is non-empty, apply the snapshot if it is non-empty.
func verifRefSave(ref *memoryWAL, hs raftpb.HardState, ents []raftpb.Entry, snap raftpb.Snapshot) error {
	if len(ents) > 0 {
		if err := ref.Append(ents); err != nil {
			return err
		}
	}
	if !etcdRaft.IsEmptyHardState(hs) {
		if err := ref.SetHardState(hs); err != nil {
			return err
		}
	}
	if !etcdRaft.IsEmptySnap(snap) {
		return ref.ApplySnapshot(snap)
	}
	return nil
}

func verifTerm(name string) uint64 {
	t := verifrt.Uint64(name)
	verifrt.Assume(verifrt.And(t >= 1, t < 100))
	return t
}

// compare every read call of the two stores
func verifCompareStores(w *badgerWAL, ref *memoryWAL, what string, maxIdx uint64) {
	wf, werr := w.FirstIndex()
	rf, rerr := ref.FirstIndex()
	verifrt.Assert(werr == nil && rerr == nil, what+"-firstindex-no-error")
	verifrt.Assert(wf == rf, what+"-firstindex")
	wl, werr := w.LastIndex()
	rl, rerr := ref.LastIndex()
	verifrt.Assert(werr == nil && rerr == nil, what+"-lastindex-no-error")
	verifrt.Assert(wl == rl, what+"-lastindex")
	for i := uint64(0); i <= maxIdx+1; i++ {
		wt, werr := w.Term(i)
		rt, rerr := ref.Term(i)
		verifrt.Assert(verifErrClass(werr) == verifErrClass(rerr), what+"-term-error-class")
		if werr == nil && rerr == nil {
			verifrt.Assert(wt == rt, what+"-term")
		}
	}
	ws, werr := w.Snapshot()
	rs, rerr := ref.Snapshot()
	verifrt.Assert(werr == nil && rerr == nil, what+"-snapshot-no-error")
	verifrt.Assert(ws.Metadata.Index == rs.Metadata.Index, what+"-snapshot-index")
	verifrt.Assert(ws.Metadata.Term == rs.Metadata.Term, what+"-snapshot-term")
	verifrt.Assert(len(ws.Data) == len(rs.Data), what+"-snapshot-data")
	whs, _, werr := w.InitialState()
	rhs, _, rerr := ref.InitialState()
	verifrt.Assert(werr == nil && rerr == nil, what+"-initialstate-no-error")
	verifrt.Assert(whs.Term == rhs.Term && whs.Vote == rhs.Vote && whs.Commit == rhs.Commit, what+"-hardstate")
	// entry ranges: every suffix [lo, last+1) and every prefix [first, hi), unlimited and tight size limits
	if rf <= rl {
		type rng struct{ lo, hi uint64 }
		var rs []rng
		for lo := rf; lo <= rl; lo++ {
			rs = append(rs, rng{lo, rl + 1})
		}
		for hi := rf + 1; hi <= rl; hi++ {
			rs = append(rs, rng{rf, hi})
		}
		for _, r := range rs {
			for _, lim := range []uint64{^uint64(0), 0} {
				we, werr := w.Entries(r.lo, r.hi, lim)
				re, rerr := ref.Entries(r.lo, r.hi, lim)
				verifrt.Assert(verifErrClass(werr) == verifErrClass(rerr), what+"-entries-error-class")
				if werr != nil || rerr != nil {
					continue
				}
				verifrt.Assert(len(we) == len(re), what+"-entries-count")
				if len(we) == len(re) {
					for k := range we {
						verifrt.Assert(we[k].Index == re[k].Index, what+"-entries-index")
						verifrt.Assert(we[k].Term == re[k].Term, what+"-entries-term")
					}
				}
			}
		}
	}
	// out-of-range requests
	if rf > 0 {
		_, werr = w.Entries(rf-1, rf, ^uint64(0))
		_, rerr = ref.Entries(rf-1, rf, ^uint64(0))
		verifrt.Assert(verifErrClass(werr) == verifErrClass(rerr), what+"-entries-compacted-class")
	}
}

func VerifC06() {
	L := verifrt.Bound("calls", 3)
	maxBatch := verifrt.Bound("batch", 2)
	kinds := verifrt.Bound("kinds", 4)
	db, err := badger.Open(badger.DefaultOptions("").WithInMemory(true))
	if err != nil {
		panic(err)
	}
	defer db.Close()
	var gid uuid.UUID
	if verifrt.Bound("gid", 0) == 1 {
		gid = uuid.UUID{0x68, 0x73, 1, 2, 3, 4, 5, 6, 7, 8, 9, 10, 11, 12, 13, 14} // begins with "hs"
	}
	w := NewBadgerWAL(db, gid)
	ref := NewMemoryWAL()
	// a second group sharing the database must never be affected
	other := NewBadgerWAL(db, uuid.UUID{0xB0, 1})
	other.Save(raftpb.HardState{Term: 7, Vote: 1, Commit: 1}, []raftpb.Entry{{Index: 1, Term: 7}}, raftpb.Snapshot{})
	maxIdx := uint64(0)
	cs := &raftpb.ConfState{Nodes: []uint64{1}}
	for step := 0; step < L; step++ {
		rf, _ := ref.FirstIndex()
		rl, _ := ref.LastIndex()
		rsnap, _ := ref.Snapshot()
		switch verifrt.Choose("call", kinds) {
		case 0: // Save(hard state, contiguous batch starting in [first, last+1])
			n := verifrt.IntIn("n", 0, maxBatch)
			var ents []raftpb.Entry
			if n > 0 {
				start := rf + uint64(verifrt.IntIn("start", 0, int(rl+1-rf)))
				for k := 0; k < n; k++ {
					ents = append(ents, raftpb.Entry{Index: start + uint64(k), Term: verifTerm("term")})
				}
				if start+uint64(n) > maxIdx {
					maxIdx = start + uint64(n)
				}
			}
			var hs raftpb.HardState
			if verifrt.Choose("hs", 2) == 1 {
				hs = raftpb.HardState{Term: verifTerm("hsterm"), Vote: 1, Commit: rl}
			}
			werr := w.Save(hs, ents, raftpb.Snapshot{})
			rerr := verifRefSave(ref, hs, ents, raftpb.Snapshot{})
			verifrt.Assert(werr == nil && rerr == nil, "save-succeeds")
			verifrt.Tag("append")
		case 1: // received snapshot newer than the current one (below or above the last index)
			idx := rsnap.Metadata.Index + 1 + uint64(verifrt.IntIn("snapahead", 0, int(rl-rsnap.Metadata.Index)+1))
			snap := raftpb.Snapshot{Data: []byte{1}, Metadata: raftpb.SnapshotMetadata{Index: idx, Term: verifTerm("snapterm"), ConfState: *cs}}
			if idx > maxIdx {
				maxIdx = idx
			}
			werr := w.Save(raftpb.HardState{}, nil, snap)
			rerr := verifRefSave(ref, raftpb.HardState{}, nil, snap)
			verifrt.Assert(werr == nil && rerr == nil, "save-snapshot-succeeds")
			verifrt.Tag("install-snapshot")
		case 2: // local snapshot + compaction at an index in (snapshot index, last]
			if rl <= rsnap.Metadata.Index || rl < rf {
				continue
			}
			lo := rsnap.Metadata.Index + 1
			if lo < rf {
				lo = rf
			}
			if lo > rl {
				continue
			}
			idx := lo + uint64(verifrt.IntIn("compactat", 0, int(rl-lo)))
			_, werr := w.CreateSnapshot(idx, cs, []byte{2})
			_, rerr := ref.CreateSnapshot(idx, cs, []byte{2})
			if rerr == nil {
				rerr = ref.Compact(idx)
			}
			verifrt.Assert(verifErrClass(werr) == verifErrClass(rerr), "createsnapshot-error-class")
			verifrt.Tag("compact")
		case 3: // reopen: fresh instance, cold cache
			w = NewBadgerWAL(db, gid)
			verifrt.Tag("reopen")
		}
		// cmpall=0: compare only after the last call (shorter histories are covered by the runs with fewer calls)
		if verifrt.Bound("cmpall", 1) == 1 || step == L-1 {
			verifCompareStores(w, ref, "after-call", maxIdx)
		}
	}
	// the other group is untouched
	oh, _, _ := other.InitialState()
	ol, _ := other.LastIndex()
	ot, oterr := other.Term(1)
	verifrt.Assert(oh.Term == 7 && ol == 1 && oterr == nil && ot == 7, "other-group-unaffected")
	// deleting the group leaves a later store indistinguishable from a fresh one
	if verifrt.Bound("delete", 1) == 1 {
		w.DeleteGroup()
		w2 := NewBadgerWAL(db, gid)
		fresh := NewMemoryWAL()
		ff, _ := w2.FirstIndex()
		rf, _ := fresh.FirstIndex()
		fl, _ := w2.LastIndex()
		rl, _ := fresh.LastIndex()
		verifrt.Assert(ff == rf && fl == rl, "deleted-group-looks-fresh-indexes")
		s2, _ := w2.Snapshot()
		verifrt.Assert(etcdRaft.IsEmptySnap(s2), "deleted-group-looks-fresh-snapshot")
		h2, _, _ := w2.InitialState()
		verifrt.Assert(etcdRaft.IsEmptyHardState(h2), "deleted-group-looks-fresh-hardstate")
		ol, _ = other.LastIndex()
		verifrt.Assert(ol == 1, "other-group-unaffected-by-delete")
	}
	verifrt.Reach("end")
}

//go:build verif

package storage

import (
	"context"

	"github.com/marekgalovic/anndb/index"
	pb "github.com/marekgalovic/anndb/protobuf"
	"github.com/marekgalovic/anndb/storage/raft"

	"github.com/golang/protobuf/proto"

	etcdRaft "github.com/coreos/etcd/raft"
	"github.com/coreos/etcd/raft/raftpb"

	"github.com/marekgalovic/anndb/verifrt"
)

// Harness for C11: write acknowledgements are truthful and reach the right
// caller. The partition's RaftGroup wraps a harness etcdRaft.Node whose
// Propose hands the bytes to an apply goroutine; that goroutine calls the real
// partition.process at any later scheduling point (also before the proposer
// starts waiting), or never (not committed in time).

type verifProposal struct {
	data []byte
}

type verifNode struct {
	proposals chan verifProposal
	proposed  int
	log       [][]byte
}

func (n *verifNode) Tick()                                  {}
func (n *verifNode) Campaign(ctx context.Context) error     { return nil }
func (n *verifNode) Propose(ctx context.Context, data []byte) error {
	verifrt.HarnessLock()
	n.proposed++
	n.log = append(n.log, data)
	verifrt.HarnessUnlock()
	n.proposals <- verifProposal{data}
	return nil
}
func (n *verifNode) ProposeConfChange(ctx context.Context, cc raftpb.ConfChange) error { return nil }
func (n *verifNode) Step(ctx context.Context, msg raftpb.Message) error               { return nil }
func (n *verifNode) Ready() <-chan etcdRaft.Ready                                     { return nil }
func (n *verifNode) Advance()                                                         {}
func (n *verifNode) ApplyConfChange(cc raftpb.ConfChange) *raftpb.ConfState           { return &raftpb.ConfState{} }
func (n *verifNode) TransferLeadership(ctx context.Context, lead, transferee uint64)   {}
func (n *verifNode) ReadIndex(ctx context.Context, rctx []byte) error                 { return nil }
func (n *verifNode) Status() etcdRaft.Status                                          { return etcdRaft.Status{} }
func (n *verifNode) ReportUnreachable(id uint64)                                      {}
func (n *verifNode) ReportSnapshot(id uint64, status etcdRaft.SnapshotStatus)         {}
func (n *verifNode) Stop()                                                            {}

// verifRaftPartition: a partition with a real index, real notificator and a
// RaftGroup around the harness node. applied[i] tells whether proposal i was
// applied by the apply goroutine.
func verifRaftPartition(dim int, c verifIdxCfg) (*partition, *verifNode) {
	p := verifPartition(dim, c)
	node := &verifNode{proposals: make(chan verifProposal, 8)}
	p.raft = raft.VerifNewRaftGroup(p.id, node, nil, nil)
	return p, node
}

func VerifC11Local() {
	verifrt.RaceDetect(verifrt.Bound("race", 0) == 1)
	callers := verifrt.IntIn("callers", 1, verifrt.Bound("maxcallers", 2))
	verifrt.Preemptions(verifrt.Bound("preempt", 1))
	cfg := verifIdxConfigs()[0]
	p, node := verifRaftPartition(1, cfg)
	// pre-state: id 0 may already be stored
	present := verifrt.Choose("pre", 2) == 1
	if present {
		p.index.Insert(verifItemId(0), []float32{1}, nil, 0)
	}
	commit := make([]bool, callers)
	for i := range commit {
		commit[i] = verifrt.Choose("commit", 2) == 1
	}
	appliedN := 0
	applyDone := make(chan struct{})
	go func() {
		for i := 0; i < callers; i++ {
			pr := <-node.proposals
			if commit[i] {
				if err := p.process(pr.data); err != nil {
					verifrt.Assert(false, "apply-never-fails")
				}
				appliedN++
			}
		}
		close(applyDone)
	}()
	type outcome struct {
		op  int
		err error
	}
	results := make([]outcome, callers)
	done := make(chan int, callers)
	for c := 0; c < callers; c++ {
		c := c
		op := verifrt.Choose("op", 3)
		results[c].op = op
		go func() {
			ctx := context.Background()
			switch op {
			case 0:
				results[c].err = p.insert(ctx, verifItemId(0), []float32{2}, nil)
			case 1:
				results[c].err = p.update(ctx, verifItemId(0), []float32{3}, nil)
			case 2:
				results[c].err = p.remove(ctx, verifItemId(0))
			}
			done <- c
		}()
	}
	for c := 0; c < callers; c++ {
		<-done
	}
	<-applyDone
	verifrt.Reach("callers-returned")
	// The proposals are applied in proposal order; with one caller the mapping
	// caller -> proposal is known, so the outcome can be checked exactly.
	if callers == 1 {
		err := results[0].err
		if !commit[0] {
			verifrt.Tag("not-committed")
			verifrt.Assert(err != nil, "unapplied-proposal-means-error")
			_, gerr := p.index.Get(verifItemId(0))
			verifrt.Assert((gerr == nil) == present, "unapplied-proposal-changes-nothing")
			return
		}
		verifrt.Tag("committed")
		// applied within the deadline: the caller must get exactly its outcome
		var want error
		switch results[0].op {
		case 0:
			if present {
				want = index.ItemAlreadyExistsError
			}
		case 1, 2:
			if !present {
				want = index.ItemNotFoundError
			}
		}
		verifrt.Assert(err == want, "applied-proposal-delivers-its-outcome-to-its-caller")
		return
	}
	// two callers: every success must correspond to an applied change
	okCount := 0
	for c := 0; c < callers; c++ {
		if results[c].err == nil {
			okCount++
		}
	}
	verifrt.Assert(okCount <= appliedN, "success-only-if-applied")
	verifrt.Reach("end2")
}

// VerifC11Remote: owner not hosted locally: reachable and healthy, reachable
// and failing, or unknown address. Success only if the owner acknowledged.
func VerifC11Remote() {
	verifrt.RaceDetect(verifrt.Bound("race", 0) == 1)
	const local = uint64(1)
	ds := verifDataset(local, 1, [][]uint64{{101}})
	mode := verifrt.Choose("owner", 3) // 0 healthy, 1 failing, 2 unknown address (no cached client, not in the address book)
	client := &verifDMClient{node: 101}
	switch mode {
	case 0:
		ds.dataManagerClients[101] = client
	case 1:
		client.fail = true
		ds.dataManagerClients[101] = client
	case 2:
		verifrt.Tag("owner-address-unknown")
	}
	ctx := context.Background()
	var err error
	op := verifrt.Choose("op", 3)
	switch op {
	case 0:
		err = ds.Insert(ctx, verifItemId(0), []float32{1}, nil)
	case 1:
		err = ds.Update(ctx, verifItemId(0), []float32{1}, nil)
	case 2:
		err = ds.Remove(ctx, verifItemId(0))
	}
	acknowledged := mode == 0 && len(client.getCalls()) == 1
	verifrt.Assert(verifrt.Implies(err == nil, acknowledged), "success-only-if-owner-acknowledged")
	verifrt.Reach("remote-end")

	// wrong dimension is rejected before anything is sent
	client.calls = nil
	err = ds.Insert(ctx, verifItemId(1), []float32{1, 2}, nil)
	verifrt.Assert(err == DimensionMissmatchErr && len(client.getCalls()) == 0, "dimension-mismatch-rejected-before-proposing")
	err = ds.Update(ctx, verifItemId(1), []float32{}, nil)
	verifrt.Assert(err == DimensionMissmatchErr && len(client.getCalls()) == 0, "dimension-mismatch-rejected-before-proposing")
}

// VerifC11Batch: batch calls report an error for exactly the ids that failed.
func VerifC11Batch() {
	verifrt.RaceDetect(verifrt.Bound("race", 0) == 1)
	const local = uint64(1)
	verifrt.Preemptions(verifrt.Bound("preempt", 0))
	ds := verifDataset(local, 1, [][]uint64{{local}})
	p := ds.partitions[0]
	rp, node := verifRaftPartition(1, verifIdxConfigs()[0])
	p.index, p.notificator, p.raft = rp.index, rp.notificator, rp.raft
	present := verifrt.Choose("pre", 2) == 1
	if present {
		p.index.Insert(verifItemId(0), []float32{1}, nil, 0)
	}
	go func() {
		pr := <-node.proposals
		if err := p.process(pr.data); err != nil {
			verifrt.Assert(false, "apply-never-fails")
		}
	}()
	// items: [valid id 0] [id 1 or duplicate id 0] [wrong dimension id 2]
	second := verifrt.Choose("second", 2)
	items := []*pb.BatchItem{
		{Id: verifItemId(0).Bytes(), Value: []float32{5}},
		{Id: verifItemId(second).Bytes(), Value: []float32{6}},
		{Id: verifItemId(2).Bytes(), Value: []float32{7, 8}},
	}
	kind := verifrt.Choose("kind", 3)
	var errs map[[16]byte]error
	var err error
	got := map[int]error{}
	switch kind {
	case 0:
		r, e := ds.BatchInsert(context.Background(), items)
		err = e
		for id, v := range r {
			got[verifItemIndex(id)] = v
		}
	case 1:
		r, e := ds.BatchUpdate(context.Background(), items)
		err = e
		for id, v := range r {
			got[verifItemIndex(id)] = v
		}
	case 2:
		r, e := ds.BatchRemove(context.Background(), items[:2])
		err = e
		for id, v := range r {
			got[verifItemIndex(id)] = v
		}
	}
	_ = errs
	verifrt.Assert(err == nil, "batch-call-succeeds")
	if err != nil {
		return
	}
	// nothing of the wrong dimension may have been proposed
	verifrt.HarnessLock()
	proposedLog := append([][]byte(nil), node.log...)
	verifrt.HarnessUnlock()
	for _, data := range proposedLog {
		var ch pb.PartitionChange
		if proto.Unmarshal(data, &ch) == nil {
			for _, it := range ch.GetBatchItems() {
				if kind != 2 {
					verifrt.Assert(len(it.GetValue()) == 1, "wrong-dimension-item-never-proposed")
				}
			}
		}
	}
	want := map[int]bool{}
	switch kind {
	case 0:
		want[2] = true // wrong dimension
		if present {
			want[0] = true
		}
		if second == 0 {
			want[0] = true // duplicate in the batch: the second occurrence already exists
		}
	case 1:
		want[2] = true
		if !present {
			want[0] = true
			if second == 1 {
				want[1] = true
			}
		} else if second == 1 {
			want[1] = true
		}
	case 2:
		if !present {
			want[0] = true
		} else if second == 0 {
			want[0] = true // removed by the first occurrence, absent for the second
		}
		if second == 1 {
			want[1] = true
		}
	}
	for i := 0; i < 3; i++ {
		_, has := got[i]
		verifrt.Assert(has == want[i], "batch-reports-error-for-exactly-the-failed-ids")
	}
	verifrt.Reach("batch-end")
}

// VerifC11TwoNodes: two replicas of one partition, each with its own
// notificator and its own proposer; both apply the same log in the same
// order. Every caller must receive the outcome of its own entry and nothing
// else (a replica applies entries proposed through the other node as well).
func VerifC11TwoNodes() {
	verifrt.RaceDetect(verifrt.Bound("race", 0) == 1)
	verifrt.Preemptions(verifrt.Bound("preempt", 1))
	cfg := verifIdxConfigs()[0]
	r1, n1 := verifRaftPartition(1, cfg)
	r2, n2 := verifRaftPartition(1, cfg)
	present := verifrt.Choose("pre", 2) == 1
	if present {
		r1.index.Insert(verifItemId(0), []float32{1}, nil, 0)
		r2.index.Insert(verifItemId(0), []float32{1}, nil, 0)
	}
	// the shared log: proposals of both nodes in the order a decision picks
	order := verifrt.Choose("order", 2)
	applied := make(chan struct{})
	go func() {
		var first, second verifProposal
		if order == 0 {
			first = <-n1.proposals
			second = <-n2.proposals
		} else {
			first = <-n2.proposals
			second = <-n1.proposals
		}
		for _, pr := range []verifProposal{first, second} {
			verifrt.Assert(r1.process(pr.data) == nil, "apply-never-fails")
			verifrt.Assert(r2.process(pr.data) == nil, "apply-never-fails")
		}
		close(applied)
	}()
	var err1, err2 error
	done := make(chan int, 2)
	// node 1 inserts a fresh id, node 2 inserts id 0 (which may already exist)
	go func() { err1 = r1.insert(context.Background(), verifItemId(1), []float32{2}, nil); done <- 1 }()
	go func() { err2 = r2.insert(context.Background(), verifItemId(0), []float32{3}, nil); done <- 2 }()
	<-done
	<-done
	<-applied
	verifrt.Reach("two-nodes-returned")
	verifrt.Assert(err1 == nil, "caller-1-gets-its-own-outcome")
	if present {
		verifrt.Assert(err2 == index.ItemAlreadyExistsError, "caller-2-gets-its-own-outcome")
	} else {
		verifrt.Assert(err2 == nil, "caller-2-gets-its-own-outcome")
	}
}

// VerifC11Timeout: the relative timing of a caller's deadline and the apply of
// its own entry. Caller 1 proposes; the apply goroutine applies the entry; the
// caller's deadline (the real 5 s proposal timeout) may expire at any scheduling
// point in between (verifrt.TimersRacy), so the caller may see its outcome, or a
// timeout while the outcome is on its way. Afterwards caller 2 removes an id that
// was never stored: its answer must be "not found" (or an error of its own), never
// the outcome of somebody else's proposal.
func VerifC11Timeout() {
	verifrt.RaceDetect(verifrt.Bound("race", 0) == 1)
	verifrt.Preemptions(verifrt.Bound("preempt", 2))
	verifrt.TimersRacy(true)
	cfg := verifIdxConfigs()[0]
	p, node := verifRaftPartition(1, cfg)
	applyDone := make(chan struct{})
	go func() {
		for i := 0; i < 2; i++ {
			pr := <-node.proposals
			if err := p.process(pr.data); err != nil {
				verifrt.Assert(false, "apply-never-fails")
			}
		}
		close(applyDone)
	}()
	ctx := context.Background()
	err1 := p.insert(ctx, verifItemId(0), []float32{2}, nil)
	if err1 != nil {
		verifrt.Tag("first-caller-timed-out")
	}
	verifrt.Assert(err1 == nil || err1 == context.DeadlineExceeded, "first-caller-gets-its-outcome-or-a-timeout")
	err2 := p.remove(ctx, verifItemId(1))
	verifrt.Assert(err2 != nil, "remove-of-an-unknown-id-is-never-acknowledged")
	verifrt.Assert(err2 == index.ItemNotFoundError || err2 == context.DeadlineExceeded, "second-caller-gets-its-own-outcome")
	verifrt.Quiesce()
	verifrt.Reach("timeout-end")
}

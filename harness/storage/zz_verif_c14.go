//go:build verif

package storage

import (
	"context"

	"github.com/marekgalovic/anndb/cluster"
	pb "github.com/marekgalovic/anndb/protobuf"
	"github.com/marekgalovic/anndb/storage/raft"
	badger "github.com/dgraph-io/badger/v2"
	"github.com/golang/protobuf/proto"
	uuid "github.com/satori/go.uuid"

	"github.com/marekgalovic/anndb/verifrt"
)

// Harness for C14 (state-machine clauses): replaying the catalogue log on a
// fresh manager and restoring a catalogue snapshot of any cut on a replica
// that has applied any prefix, then replaying the rest, give the same
// catalogue; a deleted dataset is gone and its partitions are no longer
// watched.

type verifCatalogueGroup struct {
	proposed [][]byte
}

func (g *verifCatalogueGroup) RegisterProcessFn(raft.ProcessFn) error         { return nil }
func (g *verifCatalogueGroup) RegisterProcessSnapshotFn(raft.ProcessFn) error { return nil }
func (g *verifCatalogueGroup) RegisterSnapshotFn(raft.SnapshotFn) error       { return nil }
func (g *verifCatalogueGroup) LeaderId() uint64                               { return 1 }
func (g *verifCatalogueGroup) Propose(ctx context.Context, data []byte) error {
	g.proposed = append(g.proposed, data)
	return nil
}

type verifCatalogueNode struct {
	dm        *DatasetManager
	allocator *Allocator
}

func verifNewCatalogueNode(db *badger.DB) *verifCatalogueNode {
	const local = uint64(1)
	conn, err := cluster.NewConn(local, "n1:0", "")
	if err != nil {
		panic(err)
	}
	allocator := NewAllocator(conn)
	transport := raft.NewTransport(local, "n1:0", conn)
	dm, err := NewDatasetManager(&verifCatalogueGroup{}, db, transport, conn, allocator)
	if err != nil {
		panic(err)
	}
	return &verifCatalogueNode{dm: dm, allocator: allocator}
}

func verifDatasetId(i int) uuid.UUID { return verifUUID(byte(0xD0 + i)) }

// partition ids are server-generated and random: their creation order is in
// general not their byte order (here: descending), and the position in the list
// is what routes an item id to its partition
func verifPartitionId(ds, p int) uuid.UUID { return verifUUID(byte(0x10*(ds+1) + 9 - p)) }

// one symbolic catalogue change, as the bytes that would be in the log
func verifCatalogueChange(step int) []byte {
	kind := verifrt.Choose("change", verifrt.Bound("changes", 3))
	ds := verifrt.IntIn("dataset", 0, verifrt.Bound("datasets", 2)-1)
	change := &pb.DatasetManagerChange{NotificationId: verifUUID(0xEE).Bytes()}
	switch kind {
	case 0:
		// dataset ids are server-generated and unique, so one id always denotes one
		// dataset: its immutable attributes are a function of the id
		pc := 1 + ds%2
		meta := &pb.Dataset{Id: verifDatasetId(ds).Bytes(), Dimension: uint32(1 + ds), PartitionCount: uint32(pc), ReplicationFactor: uint32(verifrt.Bound("replicas", 1)), Space: pb.Space(ds % 3)}
		for p := 0; p < pc; p++ {
			nodeIds := []uint64{7}
			for r := 1; r < verifrt.Bound("replicas", 1); r++ {
				nodeIds = append(nodeIds, uint64(20+r))
			}
			meta.Partitions = append(meta.Partitions, &pb.Partition{Id: verifPartitionId(ds, p).Bytes(), NodeIds: nodeIds})
		}
		data, err := proto.Marshal(meta)
		if err != nil {
			panic(err)
		}
		change.Type, change.Data = pb.DatasetManagerChangeType_DatasetManagerCreateDataset, data
	case 1:
		change.Type, change.Data = pb.DatasetManagerChangeType_DatasetManagerDeleteDataset, verifDatasetId(ds).Bytes()
	case 2:
		nc := &pb.DatasetPartitionNodesChange{DatasetId: verifDatasetId(ds).Bytes(), PartitionId: verifPartitionId(ds, 0).Bytes(), NodeId: uint64(8 + step)}
		if verifrt.Choose("nodechange", 2) == 1 {
			nc.Type = pb.DatasetPartitionNodesChangeType_DatasetPartitionNodesChangeRemoveNode
			nc.NodeId = 7
			// with several initial replicas any of them may be the one that leaves
			if r := verifrt.Bound("replicas", 1); r > 1 {
				if k := verifrt.Choose("which-replica-leaves", r); k > 0 {
					nc.NodeId = uint64(20 + k)
				}
			}
		}
		data, err := proto.Marshal(nc)
		if err != nil {
			panic(err)
		}
		change.Type, change.Data = pb.DatasetManagerChangeType_DatasetManagerUpdatePartitionNodes, data
	}
	out, err := proto.Marshal(change)
	if err != nil {
		panic(err)
	}
	return out
}

func verifSameCatalogue(a, b *DatasetManager, nDatasets int, what string) {
	la, _ := a.List(context.Background(), false)
	lb, _ := b.List(context.Background(), false)
	verifrt.Assert(len(la) == len(lb), what+"-same-number-of-datasets")
	for i := 0; i < nDatasets; i++ {
		da, ea := a.Get(verifDatasetId(i))
		db, eb := b.Get(verifDatasetId(i))
		verifrt.Assert((ea == nil) == (eb == nil), what+"-same-datasets")
		if ea != nil || eb != nil {
			continue
		}
		ma, mb := da.Meta(), db.Meta()
		verifrt.Assert(ma.GetDimension() == mb.GetDimension() && ma.GetSpace() == mb.GetSpace() && ma.GetPartitionCount() == mb.GetPartitionCount(), what+"-same-dataset-meta")
		verifrt.Assert(len(da.partitions) == len(db.partitions), what+"-same-partitions")
		if len(da.partitions) != len(db.partitions) {
			continue
		}
		for p := range da.partitions {
			verifrt.Assert(da.partitions[p].id == db.partitions[p].id, what+"-same-partition-ids")
			na, nb := da.partitions[p].nodeIds(), db.partitions[p].nodeIds()
			verifrt.Assert(len(na) == len(nb), what+"-same-replica-count")
			if len(na) == len(nb) {
				for k := range na {
					verifrt.Assert(na[k] == nb[k], what+"-same-replicas")
				}
			}
		}
	}
}

// every partition the allocator watches belongs to a dataset in the catalogue
func verifWatchedAreListed(n *verifCatalogueNode, what string) {
	n.allocator.partitionsMu.RLock()
	defer n.allocator.partitionsMu.RUnlock()
	for _, p := range n.allocator.partitions {
		_, err := n.dm.Get(p.dataset.id)
		verifrt.Assert(err == nil, what+"-deleted-dataset-partitions-not-watched")
	}
}

func VerifC14() {
	L := verifrt.Bound("ops", 3)
	nDatasets := verifrt.Bound("datasets", 2)
	verifrt.SchedDeterministic(verifrt.Bound("det", 1) == 1)
	db, err := badger.Open(badger.DefaultOptions("").WithInMemory(true))
	if err != nil {
		panic(err)
	}
	cut := verifrt.IntIn("cut", 0, L)
	prefix := verifrt.IntIn("prefix", 0, cut)
	A := verifNewCatalogueNode(db)
	var log [][]byte
	var snap []byte
	if cut == 0 {
		snap, err = A.dm.snapshot()
		verifrt.Assert(err == nil, "snapshot-succeeds")
	}
	for step := 0; step < L; step++ {
		data := verifCatalogueChange(step)
		log = append(log, data)
		verifrt.Assert(A.dm.process(data) == nil, "apply-never-fails")
		if step+1 == cut {
			snap, err = A.dm.snapshot()
			verifrt.Assert(err == nil, "snapshot-succeeds")
		}
	}
	verifWatchedAreListed(A, "full-replay")

	// B: full replay on a fresh manager
	B := verifNewCatalogueNode(db)
	for _, data := range log {
		verifrt.Assert(B.dm.process(data) == nil, "apply-never-fails")
	}
	verifSameCatalogue(A.dm, B.dm, nDatasets, "replay")

	// C: applied a prefix, restores the snapshot of `cut`, applies the rest
	C := verifNewCatalogueNode(db)
	for _, data := range log[:prefix] {
		verifrt.Assert(C.dm.process(data) == nil, "apply-never-fails")
	}
	err = C.dm.processSnapshot(snap)
	verifrt.Assert(err == nil, "snapshot-restore-succeeds")
	if err != nil {
		return
	}
	for _, data := range log[cut:] {
		verifrt.Assert(C.dm.process(data) == nil, "apply-never-fails")
	}
	if prefix > 0 {
		verifrt.Tag("restore-on-non-empty-replica")
	}
	verifSameCatalogue(A.dm, C.dm, nDatasets, "snapshot+replay")
	verifWatchedAreListed(C, "snapshot+replay")
	verifrt.Reach("end")
}

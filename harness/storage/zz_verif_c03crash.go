//go:build verif

package storage

import (
	"context"
	"math"

	"github.com/marekgalovic/anndb/cluster"
	"github.com/marekgalovic/anndb/index"
	pb "github.com/marekgalovic/anndb/protobuf"
	"github.com/marekgalovic/anndb/storage/raft"

	etcdRaft "github.com/coreos/etcd/raft"
	"github.com/coreos/etcd/raft/raftpb"
	badger "github.com/dgraph-io/badger/v2"
	uuid "github.com/satori/go.uuid"

	"github.com/marekgalovic/anndb/verifrt"
)

// Harness for C03 (end to end on one node): a real partition with its real
// RaftGroup ready loop and real Badger-backed WAL (Badger API model) takes a
// history of acknowledged writes, optionally compacts its log into a local
// snapshot, and "crashes" at a chosen durable-write boundary: the goroutine
// that flushes the WAL batch blocks forever just before or just after the
// batch becomes durable. A second instance is then started on the same
// database. The raft node is a harness node with the behaviour of a
// one-member group: proposals commit at once, a restarted node re-delivers the
// stored entries after the snapshot as committed. The recovered contents must
// equal the acknowledged history, optionally extended by the one write that
// was in flight.

type verifCrashNode struct {
	readyc chan etcdRaft.Ready
	idx    uint64
}

func (n *verifCrashNode) commit(t raftpb.EntryType, data []byte) {
	n.idx++
	e := raftpb.Entry{Type: t, Index: n.idx, Term: 1, Data: data}
	n.readyc <- etcdRaft.Ready{HardState: raftpb.HardState{Term: 1, Vote: 1, Commit: n.idx}, Entries: []raftpb.Entry{e}, CommittedEntries: []raftpb.Entry{e}}
}
func (n *verifCrashNode) Tick()                              {}
func (n *verifCrashNode) Campaign(ctx context.Context) error { return nil }
func (n *verifCrashNode) Propose(ctx context.Context, data []byte) error {
	n.commit(raftpb.EntryNormal, data)
	return nil
}
func (n *verifCrashNode) ProposeConfChange(ctx context.Context, cc raftpb.ConfChange) error { return nil }
func (n *verifCrashNode) Step(ctx context.Context, msg raftpb.Message) error               { return nil }
func (n *verifCrashNode) Ready() <-chan etcdRaft.Ready                                     { return n.readyc }
func (n *verifCrashNode) Advance()                                                         {}
func (n *verifCrashNode) ApplyConfChange(cc raftpb.ConfChange) *raftpb.ConfState {
	return &raftpb.ConfState{Nodes: []uint64{1}}
}
func (n *verifCrashNode) TransferLeadership(ctx context.Context, lead, transferee uint64) {}
func (n *verifCrashNode) ReadIndex(ctx context.Context, rctx []byte) error             { return nil }
func (n *verifCrashNode) Status() etcdRaft.Status                                      { return etcdRaft.Status{} }
func (n *verifCrashNode) ReportUnreachable(id uint64)                                  {}
func (n *verifCrashNode) ReportSnapshot(id uint64, status etcdRaft.SnapshotStatus)     {}
func (n *verifCrashNode) Stop()                                                        {}

var verifCrashNodes []*verifCrashNode

func verifCrashPartition(db *badger.DB, dim int) *partition {
	const local = uint64(1)
	conn, err := cluster.NewConn(local, "n1:0", "")
	if err != nil {
		panic(err)
	}
	transport := raft.NewTransport(local, "n1:0", conn)
	ds := verifDataset(local, uint32(dim), [][]uint64{{local}})
	pid := verifUUID(0x31)
	meta := &pb.Partition{Id: pid.Bytes(), NodeIds: []uint64{local}}
	ds.meta.Space = pb.Space_Manhattan
	p := newPartition(pid, meta, ds, db, transport, nil)
	// a small index so that removals prune and re-link
	p.index = verifPartition(dim, verifIdxConfigs()[verifrt.Bound("cfg", 0)]).index
	return p
}

func VerifC03Crash() {
	L := verifrt.Bound("ops", 2)
	nIds := verifrt.Bound("ids", 2)
	verifrt.SchedDeterministic(true)
	verifCrashNodes = nil
	verifrt.Hook("raftnode", func(kind string, cfg *etcdRaft.Config, npeers int) etcdRaft.Node {
		n := &verifCrashNode{readyc: make(chan etcdRaft.Ready, 32)}
		st := cfg.Storage
		first, _ := st.FirstIndex()
		last, _ := st.LastIndex()
		n.idx = last
		if kind == "RestartNode" {
			// etcd/raft's loadState: a stored commit index outside the stored log is a
			// panic - the member can never be started again
			if hs, _, err := st.InitialState(); err == nil && !etcdRaft.IsEmptyHardState(hs) {
				verifrt.Assert(hs.Commit <= last && hs.Commit+1 >= first, "stored-commit-index-lies-within-the-stored-log")
			}
		}
		if last >= first {
			if ents, err := st.Entries(first, last+1, math.MaxUint64); err == nil && len(ents) > 0 {
				n.readyc <- etcdRaft.Ready{CommittedEntries: ents}
			}
		}
		if kind == "StartNode" {
			cc := raftpb.ConfChange{Type: raftpb.ConfChangeAddNode, NodeID: cfg.ID}
			data, _ := cc.Marshal()
			n.commit(raftpb.EntryConfChange, data)
		}
		verifCrashNodes = append(verifCrashNodes, n)
		return n
	})
	// crash point: the k-th durable write of the WAL, before or after it becomes durable (0 = no crash)
	crashAt := verifrt.IntIn("crash-at-flush", 0, verifrt.Bound("maxflush", 2*L+4))
	crashAfter := verifrt.Choose("crash-after", 2) == 1
	flushes := 0
	crashed := false
	armed := false
	forever := make(chan struct{})
	crashedC := make(chan struct{})
	verifrt.Hook("badger-flush", func(phase string) {
		if !armed || crashed {
			return
		}
		if phase == "before" {
			flushes++
		}
		if flushes == crashAt && ((phase == "after") == crashAfter) {
			crashed = true
			verifrt.Tag("crashed")
			close(crashedC)
			<-forever // the process died here
		}
	})
	db, err := badger.Open(badger.DefaultOptions("/verif-c03"))
	if err != nil {
		panic(err)
	}
	p := verifCrashPartition(db, 1)
	if err := p.loadRaft(p.nodeIds()); err != nil {
		verifrt.Assert(false, "raft-loads")
		return
	}
	verifrt.Quiesce()
	armed = true

	// the acknowledged history (sequential writer)
	acked := &verifModel{}
	inflight := &verifModel{}
	haveInflight := false
	ctx := context.Background()
	for step := 0; step < L && !crashed; step++ {
		i := verifrt.IntIn("id", 0, nIds-1)
		kind := verifrt.Choose("write", 3)
		vec := []float32{float32(10*step + i + 1)}
		next := &verifModel{}
		*next = *acked
		var err error
		switch kind {
		case 0:
			err = p.insert(ctx, verifItemId(i), vec, nil)
			if !acked.present[i] {
				next.present[i], next.vec[i] = true, vec
			}
		case 1:
			err = p.update(ctx, verifItemId(i), vec, nil)
			if acked.present[i] {
				next.vec[i] = vec
			}
		case 2:
			err = p.remove(ctx, verifItemId(i))
			if acked.present[i] {
				next.present[i], next.vec[i] = false, nil
			}
		}
		answered := err == nil || err == index.ItemAlreadyExistsError || err == index.ItemNotFoundError
		if !answered {
			// no outcome reached the caller (the node died first): the write was in
			// flight and may or may not be durable
			*inflight = *next
			haveInflight = true
			break
		}
		// acknowledged (ok / already exists / not found): its effect is in the history,
		// even if the node died right after answering
		*acked = *next
		if crashed {
			break
		}
		// optionally compact the log into a local snapshot after this write
		if verifrt.Bound("snapshots", 1) == 1 && verifrt.Choose("local-snapshot", 2) == 1 {
			// (the real loop snapshots on its own goroutine; here a helper goroutine does,
			// so that a crash inside the snapshot write does not take the harness with it)
			var serr error
			snapDone := make(chan struct{})
			go func() {
				serr = p.raft.VerifTrySnapshot(verifCrashNodes[0].idx, 0)
				close(snapDone)
			}()
			select {
			case <-snapDone:
				verifrt.Assert(serr == nil, "local-snapshot-succeeds")
			case <-crashedC:
			}
			verifrt.Tag("with-local-snapshot")
		}
	}
	verifrt.Quiesce()
	armed = false

	// restart on the same database
	p2 := verifCrashPartition(db, 1)
	if err := p2.loadRaft(p2.nodeIds()); err != nil {
		verifrt.Assert(false, "restart-loads-raft")
		return
	}
	verifrt.Quiesce()
	verifrt.Reach("restarted")
	matches := func(m *verifModel) bool {
		if p2.index.Len() != m.count() {
			return false
		}
		for i := 0; i < nIds; i++ {
			v, gerr := p2.index.Get(verifItemId(i))
			if (gerr == nil) != m.present[i] {
				return false
			}
			if gerr == nil && (len(v) != 1 || v[0] != m.vec[i][0]) {
				return false
			}
		}
		return true
	}
	ok := matches(acked)
	if !ok && haveInflight {
		ok = matches(inflight)
	}
	verifrt.Assert(ok, "recovered-contents-equal-acknowledged-history-optionally-plus-in-flight-write")
	_ = index.ItemNotFoundError
	_ = uuid.Nil
	verifrt.Reach("end")
}

//go:build verif

package storage

import (
	"context"

	"github.com/marekgalovic/anndb/index"
	"github.com/marekgalovic/anndb/index/space"

	"google.golang.org/grpc/codes"

	"github.com/marekgalovic/anndb/verifrt"
)

// Harness for C17: Dataset.SizeInfo equals the sum over all partitions, each
// counted once, or fails. Local partitions hold real indexes; remote ones are
// answered by harness pb.DataManagerClient implementations from a table keyed
// by the partition id in the request, with symbolic sizes.
func VerifC17() {
	verifrt.RaceDetect(verifrt.Bound("race", 0) == 1)
	P := verifrt.IntIn("P", 1, verifrt.Bound("maxp", 3))
	verifrt.Preemptions(verifrt.Bound("preempt", 0))
	const local = uint64(1)
	placement := make([][]uint64, P)
	for i := range placement {
		switch verifrt.Choose("placement", verifrt.Bound("placements", 4)) {
		case 0:
			placement[i] = []uint64{local}
		case 1:
			placement[i] = []uint64{101}
		case 2:
			placement[i] = []uint64{102}
		default:
			placement[i] = []uint64{101, 102}
		}
	}
	ds := verifDataset(local, 1, placement)
	clients := map[uint64]*verifDMClient{}
	// a remote node may be gone: the asking node has neither a cached client nor
	// an address for it, so every attempt to reach it fails at the dial
	unreachable := map[uint64]bool{}
	for _, node := range []uint64{101, 102} {
		c := &verifDMClient{node: node, infoLen: map[string]uint64{}, infoBytes: map[string]uint64{}, infoFail: map[string]bool{}}
		clients[node] = c
		if verifrt.Bound("gone", 1) == 1 && verifrt.Choose("node-gone", 2) == 1 {
			unreachable[node] = true
			continue
		}
		ds.dataManagerClients[node] = c
	}
	// the kind of error a failing lookup returns: a plain error or a gRPC status (several codes)
	switch verifrt.Choose("failure-kind", verifrt.Bound("failkinds", 1)) {
	case 1:
		for _, c := range clients {
			c.infoFailStatus = codes.Canceled
		}
	case 2:
		for _, c := range clients {
			c.infoFailStatus = codes.Unavailable
		}
	case 3:
		for _, c := range clients {
			c.infoFailStatus = codes.DeadlineExceeded
		}
	}
	var wantLen, wantBytes uint64
	anyRemote := false
	failing := map[string]bool{}
	anyGone := false
	allGone := map[string]bool{}
	for i, p := range ds.partitions {
		if p.isOnNode(local) {
			p.index = index.NewHnsw(1, space.NewManhattan())
			n := verifrt.IntIn("localitems", 0, 2)
			for j := 0; j < n; j++ {
				p.index.Insert(verifItemId(j), []float32{float32(j)}, nil, 0)
			}
			wantLen += uint64(p.index.Len())
			wantBytes += p.index.BytesSize()
			continue
		}
		anyRemote = true
		l := verifrt.Uint64("len")
		b := verifrt.Uint64("bytes")
		wantLen += l
		wantBytes += b
		key := string(p.id.Bytes())
		nGone := 0
		for _, node := range placement[i] {
			if unreachable[node] {
				nGone++
			}
		}
		if nGone > 0 {
			anyGone = true
		}
		if nGone == len(placement[i]) {
			allGone[key] = true
		}
		fail := verifrt.Choose("lookupfails", verifrt.Bound("failmodes", 2)) == 1
		for _, node := range placement[i] {
			clients[node].infoLen[key] = l
			clients[node].infoBytes[key] = b
			clients[node].infoFail[key] = fail
		}
		if fail {
			failing[key] = true
		}
	}
	gotLen, gotBytes, err := ds.SizeInfo(context.Background())
	verifrt.Reach("sized")
	blocked := verifrt.Quiesce()
	verifrt.Assert(blocked == 0, "no-goroutine-left-blocked")

	// what was actually asked of the remote nodes
	asked := map[string]int{}
	askedFailing := false
	for _, c := range clients {
		for _, call := range c.getCalls() {
			asked[string(call.partitionId)]++
			if failing[string(call.partitionId)] {
				askedFailing = true
			}
		}
	}
	if len(failing) > 0 {
		verifrt.Tag("lookup-fails")
	}
	if anyGone {
		verifrt.Tag("replica-node-gone")
	}
	if err != nil {
		verifrt.Assert(len(failing) > 0 || askedFailing || anyGone, "error-only-when-a-lookup-failed")
		return
	}
	// a failing lookup whose partition has no reachable replica is never sent
	for key := range failing {
		verifrt.Assert(allGone[key], "failed-lookup-means-error")
	}
	verifrt.Assert(len(allGone) == 0, "partition-without-reachable-replica-means-error")
	for _, p := range ds.partitions {
		if !p.isOnNode(local) {
			verifrt.Assert(asked[string(p.id.Bytes())] == 1, "every-remote-partition-asked-exactly-once")
		}
	}
	verifrt.Assert(gotLen == wantLen, "len-is-the-sum-over-partitions")
	verifrt.Assert(gotBytes == wantBytes, "bytes-is-the-sum-over-partitions")
	_ = anyRemote
	verifrt.Reach("end")
}

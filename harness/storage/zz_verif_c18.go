//go:build verif

package storage

import (
	"time"

	"github.com/marekgalovic/anndb/cluster"

	"github.com/marekgalovic/anndb/verifrt"
)

// Harness for C18: the real Allocator loop, the real cluster.Conn address book
// and two driver goroutines: one applies catalogue changes (watch / unwatch,
// as createDataset / deleteDataset / processSnapshot do), the other delivers
// membership changes (AddNode / RemoveNode, as the zero group's conf-change
// application does). Every interleaving at synchronisation points and every
// select choice is a path decision. A watchdog (a timer that can fire only
// when every goroutine is blocked) turns a wedged control plane into a failed
// assertion, natively as well.
func VerifC18() {
	verifrt.RaceDetect(verifrt.Bound("race", 0) == 1)
	verifrt.Preemptions(verifrt.Bound("preempt", 1))
	const local = uint64(1)
	conn, err := cluster.NewConn(local, "n1:0", "")
	if err != nil {
		panic(err)
	}
	conn.AddNode(local, "n1:0")
	a := NewAllocator(conn)
	// let the allocator loop subscribe to membership notifications and park in its select
	verifrt.Quiesce()
	time.Sleep(time.Millisecond)

	// partitions hosted elsewhere: the loop takes its locks but has no raft work to do
	ds := verifDataset(local, 1, [][]uint64{{7}, {7}, {7}})
	p1, p2, p3 := ds.partitions[0], ds.partitions[1], ds.partitions[2]
	replicaless := verifrt.Bound("replicaless", 0) == 1
	if replicaless {
		// partitions without any replica yet: the loop's node-change handler falls back to
		// the address book (clusterConn.NodeIds) to decide who may modify them
		rl := verifDataset(local, 1, [][]uint64{{}, {}})
		rl.meta.ReplicationFactor = 0
		a.watch(rl.partitions[0])
		a.watch(rl.partitions[1])
		verifrt.Quiesce()
	}

	catalogue := verifrt.Choose("catalogue", 3)
	membership := verifrt.Choose("membership", 3)
	done := make(chan int, 2)
	go func() {
		switch catalogue {
		case 0:
			a.watch(p1)
		case 1:
			a.watch(p1)
			a.watch(p2)
		case 2:
			a.watch(p1)
			a.unwatch(p1.id)
		}
		done <- 1
	}()
	go func() {
		switch membership {
		case 0:
			conn.AddNode(2, "n2:0")
		case 1:
			conn.AddNode(2, "n2:0")
			conn.AddNode(3, "n3:0")
		case 2:
			conn.AddNode(2, "n2:0")
			if replicaless {
				// (removal would make the handler propose through a catalogue the harness does not have)
				conn.AddNode(3, "n3:0")
				conn.AddNode(4, "n4:0")
			} else {
				conn.RemoveNode(2)
			}
		}
		done <- 2
	}()
	watchdog := time.After(3 * time.Second)
	for i := 0; i < 2; i++ {
		select {
		case <-done:
		case <-watchdog:
			verifrt.Tag("drivers-blocked")
			verifrt.Assert(false, "control-plane-never-wedges")
			return
		}
	}
	verifrt.Reach("drivers-returned")
	// the loop must still be serving: one more catalogue change goes through
	again := make(chan int, 1)
	go func() {
		a.watch(p3)
		again <- 1
	}()
	select {
	case <-again:
	case <-time.After(3 * time.Second):
		verifrt.Tag("loop-dead")
		verifrt.Assert(false, "control-plane-never-wedges")
		return
	}
	verifrt.Reach("end")
}

//go:build verif

package storage

import (
	"time"

	"github.com/marekgalovic/anndb/cluster"
	pb "github.com/marekgalovic/anndb/protobuf"
	badger "github.com/dgraph-io/badger/v2"
	"github.com/golang/protobuf/proto"
	etcdRaft "github.com/coreos/etcd/raft"

	"github.com/marekgalovic/anndb/verifrt"
)

// Harness for C18: the real Allocator loop, the real cluster.Conn address book
// and two driver goroutines: one applies catalogue changes (watch / unwatch,
// as createDataset / deleteDataset / processSnapshot do), the other delivers
// membership changes (AddNode / RemoveNode, as the zero group's conf-change
// application does). Every interleaving at synchronisation points and every
// select choice is a path decision. A watchdog (a timer that can fire only
// when every goroutine is blocked) turns a wedged control plane into a failed
// assertion, natively as well.
func VerifC18() {
	verifrt.RaceDetect(verifrt.Bound("race", 0) == 1)
	verifrt.Preemptions(verifrt.Bound("preempt", 1))
	const local = uint64(1)
	conn, err := cluster.NewConn(local, "n1:0", "")
	if err != nil {
		panic(err)
	}
	conn.AddNode(local, "n1:0")
	a := NewAllocator(conn)
	// let the allocator loop subscribe to membership notifications and park in its select
	verifrt.Quiesce()
	time.Sleep(time.Millisecond)

	// partitions hosted elsewhere: the loop takes its locks but has no raft work to do
	ds := verifDataset(local, 1, [][]uint64{{7}, {7}, {7}})
	p1, p2, p3 := ds.partitions[0], ds.partitions[1], ds.partitions[2]
	replicaless := verifrt.Bound("replicaless", 0) == 1
	if replicaless {
		// partitions without any replica yet: the loop's node-change handler falls back to
		// the address book (clusterConn.NodeIds) to decide who may modify them
		rl := verifDataset(local, 1, [][]uint64{{}, {}})
		rl.meta.ReplicationFactor = 0
		a.watch(rl.partitions[0])
		a.watch(rl.partitions[1])
		verifrt.Quiesce()
	}

	catalogue := verifrt.Choose("catalogue", 3)
	membership := verifrt.Choose("membership", 3)
	done := make(chan int, 2)
	go func() {
		switch catalogue {
		case 0:
			a.watch(p1)
		case 1:
			a.watch(p1)
			a.watch(p2)
		case 2:
			a.watch(p1)
			a.unwatch(p1.id)
		}
		done <- 1
	}()
	go func() {
		switch membership {
		case 0:
			conn.AddNode(2, "n2:0")
		case 1:
			conn.AddNode(2, "n2:0")
			conn.AddNode(3, "n3:0")
		case 2:
			conn.AddNode(2, "n2:0")
			if replicaless {
				// (removal would make the handler propose through a catalogue the harness does not have)
				conn.AddNode(3, "n3:0")
				conn.AddNode(4, "n4:0")
			} else {
				conn.RemoveNode(2)
			}
		}
		done <- 2
	}()
	watchdog := time.After(3 * time.Second)
	for i := 0; i < 2; i++ {
		select {
		case <-done:
		case <-watchdog:
			verifrt.Tag("drivers-blocked")
			verifrt.Assert(false, "control-plane-never-wedges")
			return
		}
	}
	verifrt.Reach("drivers-returned")
	// the loop must still be serving: one more catalogue change goes through
	again := make(chan int, 1)
	go func() {
		a.watch(p3)
		again <- 1
	}()
	select {
	case <-again:
	case <-time.After(3 * time.Second):
		verifrt.Tag("loop-dead")
		verifrt.Assert(false, "control-plane-never-wedges")
		return
	}
	verifrt.Reach("end")
}

// VerifC18Catalogue: the same question on the real catalogue. The catalogue
// driver applies real log entries through the real DatasetManager.process
// (createDataset / deleteDataset hold the catalogue lock while they hand the
// partitions to the allocator), the membership driver adds and removes peers on
// the real cluster.Conn, the real Allocator loop sits between them. Partitions
// are hosted on the local node (first replica), so the loop's node-change
// handler considers them, loads their raft groups (real etcd/raft) and proposes
// replica changes to the catalogue group - a harness group that accepts
// proposals and never commits them, like a catalogue group without a leader.
// Every interleaving at synchronisation points within the preemption budget.
func VerifC18Catalogue() {
	verifrt.RaceDetect(verifrt.Bound("race", 0) == 1)
	verifrt.Preemptions(verifrt.Bound("preempt", 1))
	verifrt.SchedDeterministic(verifrt.Bound("det", 0) == 1)
	// the partitions' raft groups are passive (no goroutine of their own, nothing ever
	// ready): what is explored is the interplay of the apply path, the allocator loop
	// and the membership notifications
	verifrt.Hook("raftnode", func(kind string, cfg *etcdRaft.Config, npeers int) etcdRaft.Node {
		return &verifNode{proposals: make(chan verifProposal, 8)}
	})
	db, err := badger.Open(badger.DefaultOptions("").WithInMemory(true))
	if err != nil {
		panic(err)
	}
	n := verifNewCatalogueNode(db)
	verifrt.Quiesce()
	entry := func(t pb.DatasetManagerChangeType, data []byte) []byte {
		out, err := proto.Marshal(&pb.DatasetManagerChange{Type: t, NotificationId: verifUUID(0xEE).Bytes(), Data: data})
		if err != nil {
			panic(err)
		}
		return out
	}
	create := func(ds int, rf uint32) []byte {
		meta := &pb.Dataset{Id: verifDatasetId(ds).Bytes(), Dimension: 1, PartitionCount: 1, ReplicationFactor: rf, Space: pb.Space_Manhattan,
			Partitions: []*pb.Partition{{Id: verifPartitionId(ds, 0).Bytes(), NodeIds: []uint64{1}}}}
		data, err := proto.Marshal(meta)
		if err != nil {
			panic(err)
		}
		return entry(pb.DatasetManagerChangeType_DatasetManagerCreateDataset, data)
	}
	del := func(ds int) []byte {
		return entry(pb.DatasetManagerChangeType_DatasetManagerDeleteDataset, verifDatasetId(ds).Bytes())
	}
	// an existing, under-replicated dataset (as after a restart with existing datasets)
	if n.dm.process(create(0, 2)) != nil {
		verifrt.Assert(false, "apply-never-fails")
		return
	}
	verifrt.Quiesce()
	// the burst a restart replays: many membership changes applied back to back while the
	// allocator is still busy with the first one (more than its notification buffer holds),
	// with a second partition already being watched
	burst := verifrt.Bound("burst", 0)
	if burst > 0 {
		if n.dm.process(create(3, 2)) != nil {
			verifrt.Assert(false, "apply-never-fails")
			return
		}
		verifrt.Quiesce()
	}
	catalogue := verifrt.Choose("catalogue", 3)
	membership := verifrt.Choose("membership", 2)
	done := make(chan int, 2)
	go func() {
		switch catalogue {
		case 0:
			n.dm.process(create(1, 1))
		case 1:
			n.dm.process(create(1, 2))
			n.dm.process(del(1))
		case 2:
			n.dm.process(del(0))
			n.dm.process(create(1, 1))
		}
		done <- 1
	}()
	go func() {
		n.dm.clusterConn.AddNode(2, "n2:0")
		if membership == 1 {
			n.dm.clusterConn.AddNode(3, "n3:0")
		}
		for b := 0; b < burst; b++ {
			n.dm.clusterConn.AddNode(uint64(4+b), "n"+string(rune('a'+b))+":0")
		}
		done <- 2
	}()
	watchdog := time.After(30 * time.Second)
	for i := 0; i < 2; i++ {
		select {
		case <-done:
		case <-watchdog:
			verifrt.Tag("drivers-blocked")
			verifrt.Assert(false, "control-plane-never-wedges")
			return
		}
	}
	verifrt.Reach("drivers-returned")
	again := make(chan int, 1)
	go func() {
		n.dm.process(create(2, 1))
		again <- 1
	}()
	select {
	case <-again:
	case <-time.After(30 * time.Second):
		verifrt.Tag("loop-dead")
		verifrt.Assert(false, "control-plane-never-wedges")
		return
	}
	verifrt.Reach("end")
}

//go:build verif

package storage

import (
	"context"

	pb "github.com/marekgalovic/anndb/protobuf"
	uuid "github.com/satori/go.uuid"

	"github.com/marekgalovic/anndb/verifrt"
)

// Harness for C10 (API paths): on a dataset of P partitions, every write path
// (single and batch insert/update/remove) sends an item with a symbolic
// 128-bit id to the partition ((lo64 mod P)+(hi64 mod P)) mod P and to no
// other, whether or not the entry node hosts the owner.
func VerifC10Route() {
	P := verifrt.IntIn("P", 1, verifrt.Bound("maxp", 4))
	hosted := verifrt.IntIn("hosted", -1, P-1) // partition hosted by the entry node (-1: none)
	const local = uint64(1)
	// noreplica=1: one partition may have lost all its replicas (replication factor 1 and
	// its node removed): the owner of an id is a function of the id and the partition
	// count only, whatever replicas the partitions have at the moment
	gone := -2
	if verifrt.Bound("noreplica", 0) == 1 {
		gone = verifrt.IntIn("partition-without-replica", -1, P-1)
	}
	placement := make([][]uint64, P)
	for i := range placement {
		placement[i] = []uint64{uint64(100 + i)}
		if i == hosted {
			placement[i] = []uint64{local}
		}
		if i == gone && i != hosted {
			placement[i] = []uint64{}
		}
	}
	ds := verifDataset(local, 1, placement)
	clients := make([]*verifDMClient, P)
	for i := range clients {
		clients[i] = &verifDMClient{node: uint64(100 + i)}
		ds.dataManagerClients[uint64(100+i)] = clients[i]
	}

	var id uuid.UUID
	for i := range id {
		id[i] = verifrt.Byte("id")
	}
	var lo, hi uint64
	for i := 0; i < 8; i++ {
		lo |= uint64(id[i]) << (8 * uint(i))
		hi |= uint64(id[8+i]) << (8 * uint(i))
	}
	n := uint64(P)
	ref := ((lo % n) + (hi % n)) % n

	// single-item routing
	p := ds.getPartitionForId(id)
	idx := -1
	for i := range ds.partitions {
		if ds.partitions[i] == p {
			idx = i
		}
	}
	verifrt.Assert(idx >= 0, "owner-is-a-partition-of-the-dataset")
	verifrt.Assert(uint64(idx) == ref, "owner-equals-reference-function")

	ctx := context.Background()
	op := verifrt.Choose("op", 6)
	item := &pb.BatchItem{Id: id.Bytes(), Value: []float32{1}}
	var err error
	var errs map[uuid.UUID]error
	switch op {
	case 0:
		err = ds.Insert(ctx, id, []float32{1}, nil)
	case 1:
		err = ds.Update(ctx, id, []float32{1}, nil)
	case 2:
		err = ds.Remove(ctx, id)
	case 3:
		errs, err = ds.BatchInsert(ctx, []*pb.BatchItem{item})
	case 4:
		errs, err = ds.BatchUpdate(ctx, []*pb.BatchItem{item})
	case 5:
		errs, err = ds.BatchRemove(ctx, []*pb.BatchItem{item})
	}
	if idx == gone && idx != hosted {
		// (a batch reports the failure per item)
		verifrt.Assert(err != nil || errs[id] != nil, "write-to-a-partition-without-replica-is-refused")
		verifrt.Tag("owner-without-replica")
	}
	for i, c := range clients {
		if i == idx && i != hosted && i != gone {
			verifrt.Assert(len(c.getCalls()) == 1, "owner-replica-called-exactly-once")
		} else {
			verifrt.Assert(len(c.getCalls()) == 0, "no-other-partition-contacted")
		}
	}
	verifrt.Reach("routed")

}

// VerifC10Group: batch grouping agrees with single-item routing: every item of
// a batch (two symbolic ids) is filed under getPartitionForId(item.id), once.
func VerifC10Group() {
	P := verifrt.IntIn("P", 1, verifrt.Bound("maxp", 4))
	placement := make([][]uint64, P)
	for i := range placement {
		placement[i] = []uint64{uint64(100 + i)}
	}
	ds := verifDataset(1, 1, placement)
	var id, id2 uuid.UUID
	for i := range id {
		id[i] = verifrt.Byte("id")
	}
	for i := range id2 {
		id2[i] = verifrt.Byte("id2")
	}
	groups := ds.groupBatchItemsByPartition([]*pb.BatchItem{{Id: id.Bytes()}, {Id: id2.Bytes()}})
	total := 0
	for part, items := range groups {
		for _, it := range items {
			total++
			iid := uuid.FromBytesOrNil(it.GetId())
			verifrt.Assert(ds.getPartitionForId(iid) == part, "batch-item-grouped-under-its-owner")
		}
	}
	verifrt.Assert(total == 2, "batch-grouping-keeps-every-item-once")
	verifrt.Reach("grouped")
}

// VerifC10Big: one large partition count (beyond 256): the batch path and the
// single path agree with the reference owner for a symbolic id. The owner
// index is concretised (one path per owner).
func VerifC10Big() {
	P := verifrt.Bound("p", 300)
	const local = uint64(1)
	placement := make([][]uint64, P)
	for i := range placement {
		placement[i] = []uint64{uint64(1000 + i)}
	}
	ds := verifDataset(local, 1, placement)
	clients := make([]*verifDMClient, P)
	for i := range clients {
		clients[i] = &verifDMClient{node: uint64(1000 + i)}
		ds.dataManagerClients[uint64(1000+i)] = clients[i]
	}
	var id uuid.UUID
	for i := range id {
		id[i] = verifrt.Byte("id")
	}
	p := ds.getPartitionForId(id)
	idx := -1
	for i := range ds.partitions {
		if ds.partitions[i] == p {
			idx = i
		}
	}
	var lo, hi uint64
	for i := 0; i < 8; i++ {
		lo |= uint64(id[i]) << (8 * uint(i))
		hi |= uint64(id[8+i]) << (8 * uint(i))
	}
	n := uint64(P)
	verifrt.Assert(uint64(idx) == ((lo%n)+(hi%n))%n, "owner-equals-reference-function")
	item := &pb.BatchItem{Id: id.Bytes(), Value: []float32{1}}
	switch verifrt.Choose("op", 4) {
	case 0:
		ds.BatchInsert(context.Background(), []*pb.BatchItem{item})
	case 1:
		ds.BatchUpdate(context.Background(), []*pb.BatchItem{item})
	case 2:
		ds.BatchRemove(context.Background(), []*pb.BatchItem{item})
	case 3:
		ds.Insert(context.Background(), id, []float32{1}, nil)
	}
	for i, c := range clients {
		if i == idx {
			verifrt.Assert(len(c.getCalls()) == 1, "owner-replica-called-exactly-once")
		} else {
			verifrt.Assert(len(c.getCalls()) == 0, "no-other-partition-contacted")
		}
	}
	verifrt.Reach("big-routed")
}

//go:build verif

package storage

import (
	"context"
	"sync"

	"github.com/marekgalovic/anndb/cluster"
	uuid "github.com/satori/go.uuid"

	"github.com/marekgalovic/anndb/verifrt"
)

// Harness for C16: placement of every partition on min(R,N) distinct member
// nodes, independently per partition. The shuffle is the Fisher-Yates
// environment stub (every choice a path decision), the address-book
// iteration order is nondeterministic.
func VerifC16() {
	N := verifrt.IntIn("N", 1, verifrt.Bound("maxn", 3))
	R := verifrt.IntIn("R", 1, verifrt.Bound("maxr", 3))
	P := verifrt.IntIn("P", 1, verifrt.Bound("maxp", 3))
	verifrt.MapOrder(verifrt.Bound("maporder", 0))
	conn, err := cluster.NewConn(1, "n1:0", "")
	if err != nil {
		panic(err)
	}
	for i := 1; i <= N; i++ {
		conn.AddNode(uint64(i), "addr")
	}
	// membership history: nodes may have left again before the dataset is created
	// (the local node was never connected to them), and one may have come back
	member := map[uint64]bool{}
	for i := 1; i <= N; i++ {
		member[uint64(i)] = true
	}
	if verifrt.Bound("leaves", 0) == 1 {
		left := 0
		for i := 2; i <= N; i++ {
			if verifrt.Choose("node-left", 2) == 1 {
				conn.RemoveNode(uint64(i))
				member[uint64(i)] = false
				left++
			}
		}
		if left > 0 {
			verifrt.Tag("after-a-node-left")
			if verifrt.Choose("one-comes-back", 2) == 1 {
				for i := 2; i <= N; i++ {
					if !member[uint64(i)] {
						conn.AddNode(uint64(i), "addr2")
						member[uint64(i)] = true
						break
					}
				}
			}
		}
		N = 0
		for _, m := range member {
			if m {
				N++
			}
		}
	}
	ctx, cancel := context.WithCancel(context.Background())
	defer cancel()
	a := &Allocator{ctx: ctx, cancelCtx: cancel, clusterConn: conn, updatesC: make(chan interface{}),
		partitions: make(map[uuid.UUID]*partition), partitionsMu: &sync.RWMutex{}}
	res := a.getPartitionsNodeIds(uint(P), uint(R))
	want := R
	if N < want {
		want = N
	}
	verifrt.Assert(len(res) == P, "one-list-per-partition")
	for _, nodes := range res {
		verifrt.Assert(len(nodes) == want, "exactly-min-R-N-replicas")
		for i, id := range nodes {
			verifrt.Assert(member[id], "replica-is-a-member")
			for j := 0; j < i; j++ {
				verifrt.Assert(nodes[j] != id, "replicas-distinct")
			}
		}
	}
	verifrt.Reach("placed")
	// independence: when more than one replica set exists and there are two
	// partitions, some shuffle outcome gives them different sets (and some
	// outcome gives them the same set)
	if P >= 2 && want < N && len(res) >= 2 && len(res[0]) == want && len(res[1]) == want {
		same := true
		for _, x := range res[0] {
			found := false
			for _, y := range res[1] {
				if x == y {
					found = true
				}
			}
			if !found {
				same = false
			}
		}
		verifrt.Cover(!same, "two-partitions-can-get-different-replica-sets")
		verifrt.Cover(same, "two-partitions-can-get-the-same-replica-set")
	}
}

// VerifC16Large: a cluster of many members (beyond any small word size): the
// replica list of one partition still has exactly min(R, N) distinct members.
// Only the first draws of the shuffle are path decisions (verifrt.RandBudget);
// the rest of the permutation is fixed.
func VerifC16Large() {
	N := verifrt.Bound("n", 70)
	R := verifrt.Bound("r", 3)
	verifrt.RandBudget(verifrt.Bound("draws", 2))
	conn, err := cluster.NewConn(1, "addr", "")
	if err != nil {
		panic(err)
	}
	member := map[uint64]bool{}
	for i := 1; i <= N; i++ {
		conn.AddNode(uint64(i), "addr")
		member[uint64(i)] = true
	}
	ctx, cancel := context.WithCancel(context.Background())
	defer cancel()
	a := &Allocator{ctx: ctx, cancelCtx: cancel, clusterConn: conn, updatesC: make(chan interface{}),
		partitions: make(map[uuid.UUID]*partition), partitionsMu: &sync.RWMutex{}}
	res := a.getPartitionsNodeIds(1, uint(R))
	want := R
	if N < want {
		want = N
	}
	verifrt.Assert(len(res) == 1, "one-list-per-partition")
	for _, nodes := range res {
		verifrt.Assert(len(nodes) == want, "exactly-min-R-N-replicas")
		for i, id := range nodes {
			verifrt.Assert(member[id], "replica-is-a-member")
			for j := 0; j < i; j++ {
				verifrt.Assert(nodes[j] != id, "replicas-distinct")
			}
		}
	}
	verifrt.Reach("placed")
}

//go:build verif

package anndb

import (
	"context"
	"io"
	"math"
	"sort"

	pb "github.com/marekgalovic/anndb/protobuf"
	"github.com/marekgalovic/anndb/services"

	etcdRaft "github.com/coreos/etcd/raft"
	"github.com/coreos/etcd/raft/raftpb"
	uuid "github.com/satori/go.uuid"
	"google.golang.org/grpc"
	"google.golang.org/grpc/metadata"

	"github.com/marekgalovic/anndb/verifrt"
)

// Harness for C20 on a cluster of 1..3 members built from real Servers
// (Server.setup / JoinCluster) in one address space.
//
// Trusted stand-in for etcd/raft: the zero groups of all members share one
// committed log (verifNet.log). A proposal by any member is appended to it and
// every live member that is part of the configuration is handed the entries it
// has not seen yet as one Ready; a member whose next entry was compacted away
// on the leader (member 1) is handed the leader's stored snapshot first. A
// (re)started member gets the entries of its own store re-delivered after its
// own snapshot, like etcd/raft's RestartNode does. StartNode with peers
// appends the bootstrap membership entry with the Context anndb passes.
//
// gRPC: dialling ":<port>" reaches the member listening on that port (engine
// hooks grpc-dial / grpc-stream); the AddNode stream can break after any
// message (message loss during the join handshake).

type verifNet struct {
	log     []raftpb.Entry
	members map[uint64]*verifLinkedNode // live zero-group nodes by raft id
	servers map[string]*Server          // by listen address
	leader  etcdRaft.Storage            // store of member 1
	loseAt  int                         // AddNode stream breaks before this message (-1: never)
	bootCtx [][]byte                    // Context of bootstrap entries as passed by anndb
}

var verifNetV *verifNet

type verifLinkedNode struct {
	id     uint64
	readyc chan etcdRaft.Ready
	next   uint64 // index of the next entry to deliver
	net    *verifNet
}

func (v *verifNet) config(upto int) map[uint64]bool {
	c := map[uint64]bool{}
	for i := 0; i < upto && i < len(v.log); i++ {
		e := v.log[i]
		if e.Type != raftpb.EntryConfChange {
			continue
		}
		var cc raftpb.ConfChange
		if cc.Unmarshal(e.Data) != nil {
			continue
		}
		switch cc.Type {
		case raftpb.ConfChangeAddNode:
			c[cc.NodeID] = true
		case raftpb.ConfChangeRemoveNode:
			delete(c, cc.NodeID)
		}
	}
	return c
}

func (v *verifNet) append(t raftpb.EntryType, data []byte) {
	v.log = append(v.log, raftpb.Entry{Type: t, Index: uint64(len(v.log) + 1), Term: 1, Data: data})
	v.deliver()
}

func (v *verifNet) deliver() {
	last := uint64(len(v.log))
	cfg := v.config(len(v.log))
	for _, id := range []uint64{1, 2, 3, 4, 5} {
		m := v.members[id]
		if m == nil || !cfg[id] || m.next > last {
			continue
		}
		if v.leader != nil && id != 1 {
			if first, err := v.leader.FirstIndex(); err == nil && m.next < first {
				snap, err := v.leader.Snapshot()
				if err == nil && !etcdRaft.IsEmptySnap(snap) {
					m.readyc <- etcdRaft.Ready{
						HardState: raftpb.HardState{Term: 1, Vote: 1, Commit: snap.Metadata.Index},
						Snapshot:  snap,
					}
					m.next = snap.Metadata.Index + 1
				}
			}
		}
		if m.next > last {
			continue
		}
		ents := append([]raftpb.Entry(nil), v.log[m.next-1:]...)
		m.readyc <- etcdRaft.Ready{
			SoftState:        &etcdRaft.SoftState{Lead: 1},
			HardState:        raftpb.HardState{Term: 1, Vote: 1, Commit: last},
			Entries:          ents,
			CommittedEntries: ents,
		}
		m.next = last + 1
	}
}

func (n *verifLinkedNode) Tick()                              {}
func (n *verifLinkedNode) Campaign(ctx context.Context) error { return nil }
func (n *verifLinkedNode) Propose(ctx context.Context, data []byte) error {
	n.net.append(raftpb.EntryNormal, data)
	return nil
}
func (n *verifLinkedNode) ProposeConfChange(ctx context.Context, cc raftpb.ConfChange) error {
	data, err := cc.Marshal()
	if err != nil {
		return err
	}
	n.net.append(raftpb.EntryConfChange, data)
	return nil
}
func (n *verifLinkedNode) Step(ctx context.Context, msg raftpb.Message) error { return nil }
func (n *verifLinkedNode) Ready() <-chan etcdRaft.Ready                       { return n.readyc }
func (n *verifLinkedNode) Advance()                                           {}
func (n *verifLinkedNode) ApplyConfChange(cc raftpb.ConfChange) *raftpb.ConfState {
	var ids []uint64
	for id := range n.net.config(len(n.net.log)) {
		ids = append(ids, id)
	}
	return &raftpb.ConfState{Nodes: ids}
}
func (n *verifLinkedNode) TransferLeadership(ctx context.Context, lead, transferee uint64) {}
func (n *verifLinkedNode) ReadIndex(ctx context.Context, rctx []byte) error             { return nil }
func (n *verifLinkedNode) Status() etcdRaft.Status                                      { return etcdRaft.Status{} }
func (n *verifLinkedNode) ReportUnreachable(id uint64)                                  {}
func (n *verifLinkedNode) ReportSnapshot(id uint64, status etcdRaft.SnapshotStatus)     {}
func (n *verifLinkedNode) Stop() {
	if n.net.members[n.id] == n {
		delete(n.net.members, n.id)
	}
	for {
		select {
		case <-n.readyc:
		default:
			return
		}
	}
}

// the client side of the AddNode stream, served synchronously by the member's
// real handler
type verifAddNodeStream struct {
	net  *verifNet
	srv  pb.NodesManagerServer
	req  *pb.Node
	msgs []*pb.Node
	err  error
}

func (s *verifAddNodeStream) Header() (metadata.MD, error) { return nil, nil }
func (s *verifAddNodeStream) Trailer() metadata.MD         { return nil }
func (s *verifAddNodeStream) Context() context.Context     { return context.Background() }
func (s *verifAddNodeStream) SendMsg(m interface{}) error {
	s.req = m.(*pb.Node)
	return nil
}
func (s *verifAddNodeStream) CloseSend() error {
	s.err = s.srv.AddNode(s.req, &verifAddNodeServerStream{s})
	return nil
}
func (s *verifAddNodeStream) RecvMsg(m interface{}) error {
	if len(s.msgs) > 0 {
		*(m.(*pb.Node)) = *s.msgs[0]
		s.msgs = s.msgs[1:]
		return nil
	}
	if s.err != nil {
		return s.err
	}
	return io.EOF
}

type verifAddNodeServerStream struct{ c *verifAddNodeStream }

func (s *verifAddNodeServerStream) SetHeader(metadata.MD) error  { return nil }
func (s *verifAddNodeServerStream) SendHeader(metadata.MD) error { return nil }
func (s *verifAddNodeServerStream) SetTrailer(metadata.MD)       {}
func (s *verifAddNodeServerStream) Context() context.Context     { return context.Background() }
func (s *verifAddNodeServerStream) SendMsg(m interface{}) error  { return s.Send(m.(*pb.Node)) }
func (s *verifAddNodeServerStream) RecvMsg(m interface{}) error  { return io.EOF }
func (s *verifAddNodeServerStream) Send(n *pb.Node) error {
	if s.c.net.loseAt >= 0 && len(s.c.msgs) >= s.c.net.loseAt {
		return io.ErrUnexpectedEOF // the connection broke
	}
	s.c.msgs = append(s.c.msgs, n)
	return nil
}

func verifInstallNet() *verifNet {
	v := &verifNet{members: map[uint64]*verifLinkedNode{}, servers: map[string]*Server{}, loseAt: -1}
	verifNetV = v
	verifrt.Hook("raftnode", func(kind string, cfg *etcdRaft.Config, npeers int) etcdRaft.Node {
		if old := v.members[cfg.ID]; old != nil {
			// the member's zero group is running: this is one of its partition
			// groups, which the model does not replicate (a one-member group)
			return verifNewBootNode(kind, cfg, npeers)
		}
		n := &verifLinkedNode{id: cfg.ID, readyc: make(chan etcdRaft.Ready, 64), net: v}
		st := cfg.Storage
		if cfg.ID == 1 {
			v.leader = st
		}
		first, _ := st.FirstIndex()
		last, _ := st.LastIndex()
		n.next = last + 1
		if last >= first {
			ents, err := st.Entries(first, last+1, math.MaxUint64)
			if err == nil && len(ents) > 0 {
				n.readyc <- etcdRaft.Ready{SoftState: &etcdRaft.SoftState{Lead: 1}, CommittedEntries: ents}
			}
		}
		v.members[cfg.ID] = n
		if kind == "StartNode" {
			for i := 0; i < npeers; i++ {
				var ctx []byte
				if i < len(v.bootCtx) {
					ctx = v.bootCtx[i]
				}
				cc := raftpb.ConfChange{Type: raftpb.ConfChangeAddNode, NodeID: cfg.ID, Context: ctx}
				data, _ := cc.Marshal()
				v.append(raftpb.EntryConfChange, data)
			}
		} else {
			v.deliver()
		}
		return n
	})
	verifrt.Hook("raftpeers", func(ctxs [][]byte) { v.bootCtx = ctxs })
	verifrt.Hook("grpc-dial", func(target string) bool {
		_, ok := v.servers[target]
		return ok
	})
	verifrt.Hook("grpc-stream", func(target, method string) (grpc.ClientStream, error) {
		s := v.servers[target]
		if s == nil || method != "/anndb_pb.NodesManager/AddNode" {
			return nil, io.ErrClosedPipe
		}
		return &verifAddNodeStream{net: v, srv: services.NewNodesManagerServer(s.nodesManager)}, nil
	})
	return v
}

func verifSameBook(got, want map[uint64]string) bool {
	if len(got) != len(want) {
		return false
	}
	for id, addr := range want {
		if a, ok := got[id]; !ok || a != addr {
			return false
		}
	}
	return true
}

// VerifC20Cluster: members join one after the other through the real
// handshake (with a broken stream and a retry), nodes are removed, the leader
// compacts, any member restarts (with its original command line or with
// -join=false); after quiescence every live member of the configuration must
// list exactly the members with the addresses they announced.
func VerifC20Cluster() {
	verifrt.Preemptions(0)
	verifrt.SchedDeterministic(true)
	v := verifInstallNet()
	members := verifrt.Bound("members", 2)
	port := func(id uint64) string { return string(rune('5'+id)) + "000" }
	addr := func(id uint64) string { return ":" + port(id) }
	mkcfg := func(id uint64, via uint64) *Config {
		c := &Config{RaftNodeId: id, DataDir: "/verif-data-" + string(rune('a'+id)), Port: port(id)}
		if via != 0 {
			c.JoinNodes = []string{addr(via)}
		}
		return c
	}
	cfgs := map[uint64]*Config{}
	live := map[uint64]*Server{}
	start := func(id uint64, c *Config) *Server {
		s := NewServer(c)
		if err := s.setup(); err != nil {
			verifrt.Assert(false, "start-succeeds")
			return nil
		}
		live[id] = s
		v.servers[addr(id)] = s
		verifrt.Quiesce()
		return s
	}
	stop := func(id uint64) {
		s := live[id]
		s.zeroGroup.Stop()
		delete(live, id)
		delete(v.servers, addr(id))
		verifrt.Quiesce()
	}
	want := map[uint64]string{1: addr(1)}
	cfgs[1] = mkcfg(1, 0)
	if start(1, cfgs[1]) == nil {
		return
	}
	compacted := false
	maybeCompact := func() {
		if verifrt.Bound("nocompact", 0) == 0 && verifrt.Choose("compact", 2) == 1 {
			err := live[1].zeroGroup.VerifTrySnapshot(uint64(len(v.log)), 0)
			verifrt.Assert(err == nil, "membership-log-compaction-succeeds")
			compacted = true
		}
	}
	for id := uint64(2); id <= uint64(members); id++ {
		via := uint64(1)
		if id > 2 {
			via = uint64(verifrt.IntIn("join-via", 1, int(id)-1))
		}
		cfgs[id] = mkcfg(id, via)
		s := start(id, cfgs[id])
		if s == nil {
			return
		}
		// the handshake, optionally broken after k messages, then retried by a
		// restarted joiner
		v.loseAt = verifrt.IntIn("stream-breaks-before-message", -1, int(id)-1)
		err := s.JoinCluster()
		if v.loseAt >= 0 {
			verifrt.Assert(err != nil, "broken-handshake-is-not-acknowledged")
			verifrt.Tag("after-broken-handshake")
			v.loseAt = -1
			stop(id)
			if s = start(id, cfgs[id]); s == nil {
				return
			}
			err = s.JoinCluster()
		}
		verifrt.Assert(err == nil, "join-acknowledged")
		want[id] = addr(id)
		verifrt.Quiesce()
		maybeCompact()
	}
	if members >= 3 && verifrt.Choose("remove-last", 2) == 1 {
		id := uint64(members)
		verifrt.Assert(live[1].nodesManager.RemoveNode(id) == nil, "removal-acknowledged")
		delete(want, id)
		verifrt.Quiesce()
		stop(id)
		verifrt.Tag("after-removal")
		maybeCompact()
	}
	check := func(label string) {
		for id, s := range live {
			if _, member := want[id]; !member {
				continue
			}
			verifrt.Assert(verifSameBook(s.clusterConn.Nodes(), want), label)
		}
	}
	verifrt.Reach("joined")
	check("every-member-lists-the-acknowledged-members-with-their-addresses")
	// restart of any member
	rid := uint64(verifrt.IntIn("restart-member", 0, members))
	if _, ok := live[rid]; ok {
		mode := verifrt.Choose("restart-with", 2) // 0: original command line, 1: -join=false
		stop(rid)
		c := cfgs[rid]
		if mode == 1 && rid != 1 {
			c = &Config{RaftNodeId: rid, DataDir: c.DataDir, Port: c.Port, DoNotJoinCluster: true}
			verifrt.Tag("restart-without-join")
		}
		s := start(rid, c)
		if s == nil {
			return
		}
		if !c.DoNotJoinCluster {
			verifrt.Assert(s.JoinCluster() == nil, "rejoin-acknowledged")
		}
		verifrt.Quiesce()
		if compacted {
			verifrt.Tag("after-compaction")
		}
		verifrt.Reach("restarted")
		check("restart-recovers-the-same-member-list-and-addresses")
	}
	verifrt.Reach("end")
}

// verifCatalogue: canonical form of a member's catalogue (what List reports).
func verifCatalogue(s *Server) ([]string, bool) {
	list, err := s.datasetManager.List(context.Background(), false)
	if err != nil {
		return nil, false
	}
	var out []string
	for _, d := range list {
		e := string(d.GetId()) + "|" + string(rune('0'+d.GetDimension())) + string(rune('0'+d.GetPartitionCount())) + string(rune('0'+d.GetReplicationFactor()))
		for _, p := range d.GetPartitions() {
			e += "|" + string(p.GetId()) + ":"
			for _, n := range p.GetNodeIds() {
				e += string(rune('0' + n))
			}
		}
		out = append(out, e)
	}
	sort.Strings(out)
	return out, true
}

// VerifC14Cluster: the catalogue on a cluster of 2..3 real Servers over the
// shared committed log of the C20 harness: datasets are created (through any
// member, before and after the second member joined, with a replication
// factor that may exceed the member count at creation so that the allocator
// adds the joiner as a replica) and deleted; the leader optionally compacts;
// a third member optionally joins late (and is caught up from the log or the
// snapshot); any member restarts. After quiescence every live member must list
// the same catalogue - same datasets, same partitions, same replica
// assignment -, every acknowledged create must be listed and every
// acknowledged delete absent.
func VerifC14Cluster() {
	verifrt.Preemptions(0)
	verifrt.SchedDeterministic(true)
	v := verifInstallNet()
	members := verifrt.Bound("members", 2)
	maxP := verifrt.Bound("maxp", 2)
	port := func(id uint64) string { return string(rune('5'+id)) + "000" }
	addr := func(id uint64) string { return ":" + port(id) }
	cfgs := map[uint64]*Config{}
	live := map[uint64]*Server{}
	start := func(id uint64) *Server {
		s := NewServer(cfgs[id])
		if err := s.setup(); err != nil {
			verifrt.Assert(false, "start-succeeds")
			return nil
		}
		live[id] = s
		v.servers[addr(id)] = s
		verifrt.Quiesce()
		return s
	}
	join := func(id uint64) bool {
		cfgs[id] = &Config{RaftNodeId: id, DataDir: "/verif-data-" + string(rune('a'+id)), Port: port(id), JoinNodes: []string{addr(1)}}
		s := start(id)
		if s == nil {
			return false
		}
		verifrt.Assert(s.JoinCluster() == nil, "join-acknowledged")
		verifrt.Quiesce()
		return true
	}
	cfgs[1] = &Config{RaftNodeId: 1, DataDir: "/verif-data-b", Port: port(1)}
	if start(1) == nil {
		return
	}
	ctx := context.Background()
	want := map[string]bool{}
	var created [][]byte
	create := func(via uint64, n int) {
		req := &pb.Dataset{Dimension: uint32(2 + n), PartitionCount: uint32(verifrt.IntIn("partitions", 1, maxP)), ReplicationFactor: uint32(verifrt.IntIn("replication", 1, 2))}
		ds, err := live[via].datasetManager.Create(ctx, req)
		verifrt.Assert(err == nil, "create-acknowledged")
		if err == nil {
			want[string(ds.Meta().GetId())] = true
			created = append(created, ds.Meta().GetId())
		}
		verifrt.Quiesce()
	}
	n := 0
	if verifrt.Choose("create-before-join", 2) == 1 {
		create(1, n)
		n++
	}
	if !join(2) {
		return
	}
	if verifrt.Choose("create-after-join", 2) == 1 {
		create(uint64(1+verifrt.Choose("create-via", 2)), n)
		n++
	}
	if len(created) > 0 && verifrt.Choose("delete-first", 2) == 1 {
		via := uint64(1 + verifrt.Choose("delete-via", 2))
		id, _ := uuidFromBytes(created[0])
		verifrt.Assert(live[via].datasetManager.Delete(ctx, id) == nil, "delete-acknowledged")
		want[string(created[0])] = false
		verifrt.Tag("with-delete")
		verifrt.Quiesce()
	}
	compacted := false
	if verifrt.Choose("compact", 2) == 1 {
		verifrt.Assert(live[1].zeroGroup.VerifTrySnapshot(uint64(len(v.log)), 0) == nil, "catalogue-log-compaction-succeeds")
		compacted = true
	}
	if members >= 3 && verifrt.Choose("late-joiner", 2) == 1 {
		if !join(3) {
			return
		}
		verifrt.Tag("with-late-joiner")
	}
	check := func(label string) {
		ref, ok := verifCatalogue(live[1])
		verifrt.Assert(ok, "list-succeeds")
		nWant := 0
		for id, present := range want {
			found := false
			for _, e := range ref {
				if len(e) >= len(id) && e[:len(id)] == id {
					found = true
				}
			}
			if present {
				nWant++
				verifrt.Assert(found, "acknowledged-dataset-listed")
			} else {
				verifrt.Assert(!found, "deleted-dataset-not-listed")
			}
		}
		verifrt.Assert(len(ref) == nWant, "nothing-else-listed")
		if list, err := live[1].datasetManager.List(ctx, false); err == nil {
			// vacuity witness: some partition has two replicas (created with both members
			// present, or the allocator added the joiner to an under-replicated one)
			for _, d := range list {
				for _, p := range d.GetPartitions() {
					if len(p.GetNodeIds()) == 2 {
						verifrt.Reach("partition-with-two-replicas")
					}
				}
			}
		}
			for id, s := range live {
			if id == 1 {
				continue
			}
			got, ok := verifCatalogue(s)
			same := ok && len(got) == len(ref)
			if same {
				for i := range ref {
					if got[i] != ref[i] {
						same = false
					}
				}
			}
			verifrt.Assert(same, label)
		}
	}
	if compacted {
		verifrt.Tag("after-compaction")
	}
	verifrt.Reach("settled")
	check("every-member-lists-the-same-catalogue")
	rid := uint64(verifrt.IntIn("restart-member", 0, members))
	if s, ok := live[rid]; ok {
		s.zeroGroup.Stop()
		delete(live, rid)
		delete(v.servers, addr(rid))
		verifrt.Quiesce()
		if verifrt.Choose("restart-with", 2) == 1 && rid != 1 {
			c := cfgs[rid]
			cfgs[rid] = &Config{RaftNodeId: rid, DataDir: c.DataDir, Port: c.Port, DoNotJoinCluster: true}
		}
		ns := start(rid)
		if ns == nil {
			return
		}
		if !cfgs[rid].DoNotJoinCluster {
			verifrt.Assert(ns.JoinCluster() == nil, "rejoin-acknowledged")
		}
		verifrt.Quiesce()
		verifrt.Reach("restarted")
		check("restarted-member-lists-the-same-catalogue")
	}
	verifrt.Reach("end")
}

func uuidFromBytes(b []byte) (uuid.UUID, error) { return uuid.FromBytes(b) }

//go:build verif

package services

import (
	"bytes"
	"context"
	"math"
	"strings"
	"time"

	"github.com/marekgalovic/anndb/cluster"
	pb "github.com/marekgalovic/anndb/protobuf"
	"github.com/marekgalovic/anndb/storage"
	"github.com/marekgalovic/anndb/storage/raft"
	"github.com/marekgalovic/anndb/storage/wal"

	etcdRaft "github.com/coreos/etcd/raft"
	"github.com/coreos/etcd/raft/raftpb"
	badger "github.com/dgraph-io/badger/v2"
	uuid "github.com/satori/go.uuid"
	"google.golang.org/grpc"

	"github.com/marekgalovic/anndb/verifrt"
)

// Harness for C12: a one-node server assembled from the real components
// (cluster.Conn, RaftTransport, Allocator, zero RaftGroup + shared group,
// DatasetManager, partitions with their real ready loops and Badger-backed
// WALs, the real RPC handlers). Under gosmt the etcd raft nodes are harness
// nodes that commit every proposal at once (delivered to the real ready loop
// as a Ready with the entry in Entries and CommittedEntries); natively they
// are real single-member etcd raft nodes. One well-typed but hostile request
// is then sent to one handler. The node must answer or return an error:
// no panic, no fatal log (an apply error is fatal), no deadlock.

type verifRaftNode struct {
	readyc chan etcdRaft.Ready
	idx    uint64
}

func (n *verifRaftNode) commit(t raftpb.EntryType, data []byte) {
	n.idx++
	e := raftpb.Entry{Type: t, Index: n.idx, Term: 1, Data: data}
	n.readyc <- etcdRaft.Ready{
		HardState:        raftpb.HardState{Term: 1, Vote: 1, Commit: n.idx},
		Entries:          []raftpb.Entry{e},
		CommittedEntries: []raftpb.Entry{e},
	}
}
func (n *verifRaftNode) Tick()                              {}
func (n *verifRaftNode) Campaign(ctx context.Context) error { return nil }
func (n *verifRaftNode) Propose(ctx context.Context, data []byte) error {
	n.commit(raftpb.EntryNormal, data)
	return nil
}
func (n *verifRaftNode) ProposeConfChange(ctx context.Context, cc raftpb.ConfChange) error {
	data, err := cc.Marshal()
	if err != nil {
		return err
	}
	n.commit(raftpb.EntryConfChange, data)
	return nil
}
func (n *verifRaftNode) Step(ctx context.Context, msg raftpb.Message) error { return nil }
func (n *verifRaftNode) Ready() <-chan etcdRaft.Ready                       { return n.readyc }
func (n *verifRaftNode) Advance()                                           {}
func (n *verifRaftNode) ApplyConfChange(cc raftpb.ConfChange) *raftpb.ConfState {
	return &raftpb.ConfState{Nodes: []uint64{1}}
}
func (n *verifRaftNode) TransferLeadership(ctx context.Context, lead, transferee uint64) {}
func (n *verifRaftNode) ReadIndex(ctx context.Context, rctx []byte) error             { return nil }
func (n *verifRaftNode) Status() etcdRaft.Status                                      { return etcdRaft.Status{} }
func (n *verifRaftNode) ReportUnreachable(id uint64)                                  {}
func (n *verifRaftNode) ReportSnapshot(id uint64, status etcdRaft.SnapshotStatus)     {}
func (n *verifRaftNode) Stop() {
	// a stopped raft node delivers nothing any more
	for {
		select {
		case <-n.readyc:
		default:
			return
		}
	}
}

type verifServer struct {
	db        *badger.DB
	conn      *cluster.Conn
	zero      *raft.RaftGroup
	dm        *storage.DatasetManager
	data      *dataManagerServer
	search    *searchServer
	catalogue *datasetManagerServer
}

func verifNewServer() *verifServer {
	verifrt.Hook("raftnode", func(kind string, cfg *etcdRaft.Config, npeers int) etcdRaft.Node {
		return &verifRaftNode{readyc: make(chan etcdRaft.Ready, 16)}
	})
	db, err := badger.Open(badger.DefaultOptions("").WithInMemory(true))
	if err != nil {
		panic(err)
	}
	const nodeId = uint64(1)
	conn, err := cluster.NewConn(nodeId, "n1:0", "")
	if err != nil {
		panic(err)
	}
	allocator := storage.NewAllocator(conn)
	transport := raft.NewTransport(nodeId, "n1:0", conn)
	zero, err := raft.NewRaftGroup(uuid.Nil, []uint64{nodeId}, wal.NewBadgerWAL(db, uuid.Nil), transport)
	if err != nil {
		panic(err)
	}
	shared, err := raft.NewSharedGroup(zero)
	if err != nil {
		panic(err)
	}
	// (the catalogue consumer is registered before Start here; the start-up order of server.go is C14's subject)
	dm, err := storage.NewDatasetManager(shared.Get("datasets"), db, transport, conn, allocator)
	if err != nil {
		panic(err)
	}
	if err := zero.Start(); err != nil {
		panic(err)
	}
	verifSettle(zero)
	return &verifServer{db: db, conn: conn, zero: zero, dm: dm,
		data: NewDataManagerServer(dm), search: NewSearchServer(dm), catalogue: NewDatasetManagerServer(dm)}
}

// verifSettle: natively the real raft node needs an election (about a second)
// before proposals commit; under gosmt there is nothing to wait for.
func verifSettle(g *raft.RaftGroup) {
	if verifrt.IsSymbolicRun() {
		verifrt.Quiesce()
		return
	}
	for i := 0; i < 400 && (g == nil || g.LeaderId() == 0); i++ {
		time.Sleep(10 * time.Millisecond)
	}
	time.Sleep(1300 * time.Millisecond)
}

// stream stubs ---------------------------------------------------------------

type verifStream struct {
	grpc.ServerStream
	sent int
}

func (s *verifStream) Context() context.Context { return context.Background() }

type verifListStream struct{ verifStream }

func (s *verifListStream) Send(d *pb.Dataset) error { s.sent++; return nil }

type verifSearchStream struct{ verifStream }

func (s *verifSearchStream) Send(d *pb.SearchResultItem) error { s.sent++; return nil }

// request ingredients -----------------------------------------------------------

func verifBytes(name string, existing []byte) []byte {
	switch verifrt.Choose(name, verifrt.Bound("idshapes", 4)) {
	case 0:
		return existing
	case 1:
		return []byte{1, 2, 3, 4, 5, 6, 7, 8, 9, 10, 11, 12, 13, 14, 15, 16} // well-formed, unknown
	case 2:
		return []byte{1, 2, 3, 4, 5, 6, 7, 8, 9, 10, 11, 12, 13, 14, 15} // truncated
	default:
		return nil
	}
}

func verifVector(name string, dim int) []float32 {
	n := dim
	switch verifrt.Choose(name+"-len", verifrt.Bound("vecshapes", 3)) {
	case 1:
		n = dim + 1
	case 2:
		n = 0
	}
	v := make([]float32, n)
	for i := range v {
		switch verifrt.Choose(name+"-val", verifrt.Bound("valshapes", 2)) {
		case 0:
			v[i] = float32(i + 1)
		case 1:
			v[i] = float32(math.NaN())
		case 2:
			v[i] = float32(math.Inf(1))
		}
	}
	return v
}

func verifMetadata() map[string]string {
	switch verifrt.Choose("meta", verifrt.Bound("metashapes", 2)) {
	case 1:
		return map[string]string{"k": "v"}
	case 2:
		// over-long key: the snapshot format stores the key length in one byte
		verifrt.Tag("metadata-key-longer-than-255")
		return map[string]string{strings.Repeat("k", 256): "v"}
	case 3:
		// over-long value: the snapshot format stores the value length in two bytes
		verifrt.Tag("metadata-value-longer-than-65535")
		return map[string]string{"k": strings.Repeat("v", 65536)}
	}
	return nil
}

// verifLevel: BatchItem.level is an ordinary wire field any client can set
func verifLevel(name string) int32 {
	switch verifrt.Choose(name, verifrt.Bound("levelshapes", 3)) {
	case 1:
		return -2
	case 2:
		return 1 << 28
	}
	return 0
}

func verifK() uint32 {
	switch verifrt.Choose("k", verifrt.Bound("kshapes", 3)) {
	case 0:
		return 0
	case 1:
		return 2
	}
	return math.MaxUint32
}

func VerifC12() {
	verifrt.Preemptions(verifrt.Bound("preempt", 0))
	verifrt.SchedDeterministic(verifrt.Bound("det", 1) == 1)
	s := verifNewServer()
	ctx := context.Background()

	// catalogue: one dataset created through the real handler from a symbolic request
	dim := verifrt.IntIn("dimension", verifrt.Bound("mindim", 0), verifrt.Bound("maxdim", 2))
	pcount := verifrt.IntIn("partition_count", verifrt.Bound("minp", 0), verifrt.Bound("maxp", 2))
	rfactor := verifrt.IntIn("replication_factor", verifrt.Bound("minr", 0), verifrt.Bound("maxr", 1))
	space := pb.Space(verifrt.Choose("space", verifrt.Bound("spaces", 2)))
	if space == 1 {
		space = 7 // undefined enum value
	}
	if space == 2 {
		space = -1 // proto3 enums are open int32: a negative value is on the wire like any other
	}
	created, cerr := s.catalogue.Create(ctx, &pb.Dataset{Dimension: uint32(dim), PartitionCount: uint32(pcount), ReplicationFactor: uint32(rfactor), Space: space})
	verifrt.Reach("dataset-created")
	var dsId []byte
	var partId []byte
	if cerr == nil && created != nil {
		dsId = created.GetId()
		if len(created.GetPartitions()) > 0 {
			partId = created.GetPartitions()[0].GetId()
		}
		// let the allocator load the partitions' raft groups
		verifSettle(nil)
	}
	// optionally the only replica of every partition has left the cluster (replication factor
	// 1 and its node removed): the committed catalogue change the allocator proposes then
	if cerr == nil && verifrt.Bound("noreplica", 0) == 1 && verifrt.Choose("replicas-left", 2) == 1 {
		if err := storage.VerifRemoveReplicas(ctx, s.dm, 1); err == nil {
			verifrt.Tag("partitions-without-replica")
		}
		verifSettle(nil)
	}
	known := []byte{9, 9, 9, 9, 9, 9, 9, 9, 9, 9, 9, 9, 9, 9, 9, 9}
	// optionally a stored item
	if cerr == nil && verifrt.Choose("prefill", 2) == 1 {
		s.data.Insert(ctx, &pb.InsertRequest{DatasetId: dsId, Id: known, Value: make([]float32, dim), Metadata: map[string]string{"a": "b"}})
		verifrt.Tag("prefilled")
	}

	// one hostile request
	rpc := verifrt.Bound("rpc", -1)
	if rpc < 0 {
		rpc = verifrt.IntIn("rpc", verifrt.Bound("rpclo", 0), verifrt.Bound("rpchi", 16))
	}
	did := verifBytes("dataset-id", dsId)
	switch rpc {
	case 0:
		s.data.Insert(ctx, &pb.InsertRequest{DatasetId: did, Id: verifBytes("id", known), Value: verifVector("value", dim), Metadata: verifMetadata()})
	case 1:
		s.data.Update(ctx, &pb.UpdateRequest{DatasetId: did, Id: verifBytes("id", known), Value: verifVector("value", dim), Metadata: verifMetadata()})
	case 2:
		s.data.Remove(ctx, &pb.RemoveRequest{DatasetId: did, Id: verifBytes("id", known)})
	case 3, 4, 5:
		items := []*pb.BatchItem{{Id: verifBytes("id", known), Value: verifVector("value", dim), Metadata: verifMetadata(), Level: verifLevel("level")}}
		if verifrt.Choose("second-item", 2) == 1 {
			items = append(items, &pb.BatchItem{Id: verifBytes("id2", known), Value: verifVector("value2", dim), Level: verifLevel("level2")})
		}
		req := &pb.BatchRequest{DatasetId: did, Items: items}
		switch rpc {
		case 3:
			s.data.BatchInsert(ctx, req)
		case 4:
			s.data.BatchUpdate(ctx, req)
		case 5:
			s.data.BatchRemove(ctx, req)
		}
	case 6, 7, 8:
		items := []*pb.BatchItem{{Id: verifBytes("id", known), Value: verifVector("value", dim), Metadata: verifMetadata(), Level: verifLevel("level")}}
		req := &pb.PartitionBatchRequest{DatasetId: did, PartitionId: verifBytes("partition-id", partId), Items: items}
		switch rpc {
		case 6:
			s.data.PartitionBatchInsert(ctx, req)
		case 7:
			s.data.PartitionBatchUpdate(ctx, req)
		case 8:
			s.data.PartitionBatchRemove(ctx, req)
		}
	case 9:
		pid := verifBytes("partition-id", partId)
		resp, perr := s.data.PartitionInfo(ctx, &pb.PartitionInfoRequest{DatasetId: did, PartitionId: pid})
		// the answer another node adds into a dataset's size: a dataset or partition this node
		// does not know must be an error, never a silent zero (C17, responder side)
		known9 := dsId != nil && partId != nil && bytes.Equal(did, dsId) && bytes.Equal(pid, partId)
		if !known9 {
			verifrt.Assert(perr != nil, "partition-info-for-an-unknown-dataset-or-partition-is-an-error")
		} else if perr == nil && resp != nil {
			verifrt.Tag("partition-info-answered")
		}
	case 10:
		s.search.Search(&pb.SearchRequest{DatasetId: did, Query: verifVector("query", dim), K: verifK()}, &verifSearchStream{})
	case 11:
		var pids [][]byte
		n := verifrt.IntIn("npartitions", 0, 2)
		for i := 0; i < n; i++ {
			pids = append(pids, verifBytes("partition-id", partId))
		}
		s.search.SearchPartitions(&pb.SearchPartitionsRequest{DatasetId: did, PartitionIds: pids, Query: verifVector("query", dim), K: verifK()}, &verifSearchStream{})
	case 12:
		s.catalogue.List(&pb.ListDatasetsRequest{WithSize: verifrt.Choose("with-size", 2) == 1}, &verifListStream{})
	case 13:
		s.catalogue.Get(ctx, &pb.GetDatasetRequest{DatasetId: did, WithSize: verifrt.Choose("with-size", 2) == 1})
	case 14:
		s.catalogue.Delete(ctx, &pb.UUIDRequest{Id: did})
	case 15:
		s.catalogue.GetDatasetSize(ctx, &pb.GetDatasetRequest{DatasetId: did})
	case 16:
		// a second create with another symbolic shape (zero counts, undefined metric)
		s.catalogue.Create(ctx, &pb.Dataset{Dimension: uint32(verifrt.IntIn("dimension2", 0, 1)), PartitionCount: uint32(verifrt.IntIn("partition_count2", 0, 1)), ReplicationFactor: uint32(verifrt.IntIn("replication_factor2", 0, 2))})
	case 17:
		// a create that fills in the fields the server is supposed to own, with extreme counts
		req := &pb.Dataset{Dimension: 1, PartitionCount: 1, ReplicationFactor: 1}
		switch verifrt.Choose("hostile-create", verifrt.Bound("createshapes", 5)) {
		case 0:
			req.Id = []byte{1, 2, 3}
			req.Partitions = []*pb.Partition{{Id: []byte{1}, NodeIds: []uint64{77}}, nil}
			req.Size = 5
		case 1:
			req.PartitionCount = math.MaxUint32
			verifrt.Tag("partition-count-2^32-1")
		case 2:
			req.ReplicationFactor = math.MaxUint32
		case 3:
			req.Dimension = math.MaxUint32
		case 4:
			req.PartitionCount = 2
			req.Partitions = []*pb.Partition{{Id: dsId, NodeIds: nil}}
		}
		s.catalogue.Create(ctx, req)
	}
	verifrt.Reach("handler-returned")
	// everything the request left behind must have been applied without killing the node;
	// a follow-up well-formed request still gets an answer
	verifSettle(nil)
	s.catalogue.List(&pb.ListDatasetsRequest{}, &verifListStream{})
	// and what the node holds now can be snapshotted and restored: a replica that
	// restarts from (or is sent) a snapshot of the state this request produced must not fail
	if verifrt.Bound("snaprestore", 1) == 1 {
		_, rerr := storage.VerifSnapshotRestoreAll(s.dm)
		verifrt.Assert(rerr == nil, "snapshot-of-resulting-state-restores")
	}
	verifrt.Reach("end")
}

"""Per-property check configuration (bounds are the ones that ran clean)."""

COMMON_ASSUME = [
    "gosmt (our Go-SSA symbolic executor, forked from x/tools/go/ssa/interp) and its memory/thread model are trusted; mitigated by native replay of every counterexample",
    "z3 4.8.12 verdicts are trusted (unsat = holds on that path for all values)",
    "package initialisers are executed only for the repo's packages and a short allow-list (io, bytes, encoding/binary, context, encoding/hex, satori/go.uuid, etcd raft/raftpb); cpuid is not initialised, so space.* dispatches to the portable kernels",
]

PROPS = {}

PROPS["C19"] = dict(
    level="model_checking",
    technique="bounded symbolic execution of go/ssa (gosmt) + SMT (z3), native replay of counterexamples",
    explanation="every operation sequence up to the bound is a path decision; priorities are solver variables, each assertion is discharged for all priority values on its path",
    runs={
        "quick": [dict(pkg="./utils", entry="VerifC19", bounds="ops=5", reach=["reversed", "end"])],
        "thorough": [dict(pkg="./utils", entry="VerifC19", bounds="ops=7", reach=["reversed", "end"])],
    },
    outside="sequences longer than the bound; more than one Reverse per history; NaN priorities (Push accepts them; not in 'non-negative priorities')",
    assumptions=COMMON_ASSUME + ["priorities are finite, non-negative, non-NaN (modelled as integer-valued reals in [0,2^20]; only comparisons are applied to them)"],
)

"""Per-property check configuration (bounds are the ones that ran clean)."""

COMMON_ASSUME = [
    "gosmt (our Go-SSA symbolic executor, forked from x/tools/go/ssa/interp) and its memory/thread model are trusted; mitigated by native replay of every counterexample",
    "z3 4.8.12 verdicts are trusted (unsat = holds on that path for all values)",
    "package initialisers are executed only for the repo's packages and a short allow-list (io, bytes, encoding/binary, context, encoding/hex, satori/go.uuid, etcd raft/raftpb); cpuid is not initialised, so space.* dispatches to the portable kernels",
]

PROPS = {}

PROPS["C19"] = dict(
    level="model_checking",
    technique="bounded symbolic execution of go/ssa (gosmt) + SMT (z3), native replay of counterexamples",
    explanation="every operation sequence up to the bound is a path decision; priorities are solver variables, each assertion is discharged for all priority values on its path",
    runs={
        "quick": [dict(pkg="./utils", entry="VerifC19", bounds="ops=5", reach=["reversed", "end"]),
                  dict(pkg="./utils", entry="VerifC19", bounds="ops=6,opset=1", reach=["end"]),
                  # long histories (24 pushes, drain to a quarter, reverse, drain) under three priority-order shapes
                  dict(pkg="./utils", entry="VerifC19Long", bounds="n=24", unwind=400, reach=["long-end"])],
        "thorough": [dict(pkg="./utils", entry="VerifC19", bounds="ops=7", reach=["reversed", "end"]),
                     dict(pkg="./utils", entry="VerifC19", bounds="ops=8,opset=1", reach=["end"]),
                     dict(pkg="./utils", entry="VerifC19Long", bounds="n=40", unwind=400, reach=["long-end"])],
    },
    outside="arbitrary histories longer than the bound (5 mixed operations / 6 push-pop-only operations quick; 7 / 8 thorough, always followed by a full drain); the long histories (24 / 40 pushes, drain, Reverse, drain) only under three priority-order shapes (ascending, descending, zig-zag; all priorities distinct) - they exist for effects that depend on the size or capacity of the backing array; more than one Reverse per history; NaN priorities (Push accepts them; not in 'non-negative priorities')",
    assumptions=COMMON_ASSUME + ["priorities are finite, non-negative, non-NaN (modelled as integer-valued reals in [0,2^20]; only comparisons are applied to them)"],
)

PROPS["C10"] = dict(
    level="model_checking",
    technique="bounded symbolic execution of go/ssa (gosmt) + SMT: 128-bit id and partition count as bit-vector variables; z3 5.1 and cvc5 (bv-as-int) must both answer unsat",
    explanation="UuidMod/getPartitionForId/groupBatchItemsByPartition/Insert/Update/Remove/Batch* executed symbolically; owner compared with the reference ((lo mod n)+(hi mod n)) mod n for all ids",
    runs={
        "quick": [
            dict(pkg="./utils", entry="VerifC10Mod", bounds="maxn=1024", solver="z3-new", workers=1, timeout_ms=60000, reach=["mod-done"]),
            dict(pkg="./utils", entry="VerifC10Mod", bounds="maxn=1024", solver="cvc5-int", workers=1, timeout_ms=60000, reach=["mod-done"]),
            dict(pkg="./storage", entry="VerifC10Route", bounds="maxp=4", solver="z3-new", reach=["routed"]),
            # one partition may have lost all its replicas: the owner still depends on the id and the partition count only, the write is refused
            dict(pkg="./storage", entry="VerifC10Route", bounds="maxp=3,noreplica=1", solver="z3-new", reach=["routed"]),
            dict(pkg="./storage", entry="VerifC10Group", bounds="maxp=4", solver="z3-new", workers=4, reach=["grouped"]),
            dict(pkg="./storage", entry="VerifC10Big", bounds="p=300", solver="z3-new", unwind=1100, conc_limit=400, reach=["big-routed"]),
            # 'every restart computes the same owner': the owner is the partition at position UuidMod(id, P) of the list, so the
            # list order must survive a catalogue snapshot/restore (partition ids in non-sorted creation order)
            dict(pkg="./storage", entry="VerifC14", bounds="ops=2,datasets=2", reach=["end"], must_assert=["snapshot+replay-same-partition-ids"]),
        ],
        "thorough": [
            dict(pkg="./storage", entry="VerifC14", bounds="ops=3,datasets=2", reach=["end"], must_assert=["snapshot+replay-same-partition-ids"]),
            dict(pkg="./utils", entry="VerifC10Mod", bounds="maxn=1024", solver="z3-new", workers=1, timeout_ms=120000, reach=["mod-done"]),
            dict(pkg="./utils", entry="VerifC10Mod", bounds="maxn=1024", solver="cvc5-int", workers=1, timeout_ms=120000, reach=["mod-done"]),
            dict(pkg="./storage", entry="VerifC10Route", bounds="maxp=7", solver="z3-new", timeout_ms=60000, reach=["routed"]),
            dict(pkg="./storage", entry="VerifC10Route", bounds="maxp=5,noreplica=1", solver="z3-new", timeout_ms=60000, reach=["routed"]),
            dict(pkg="./storage", entry="VerifC10Group", bounds="maxp=5", solver="z3-new", timeout_ms=60000, reach=["grouped"]),
            dict(pkg="./storage", entry="VerifC10Big", bounds="p=300", solver="z3-new", unwind=1100, conc_limit=400, reach=["big-routed"]),
            dict(pkg="./storage", entry="VerifC10Big", bounds="p=1024", solver="z3-new", unwind=2100, conc_limit=1100, timeout_ms=60000, reach=["big-routed"]),
        ],
    },
    outside="partition counts above 1024 (function) / above the stated maxp for the API paths (each partition count is a separate path with the id fully symbolic); n = 0 (division by zero) belongs to C12",
    assumptions=COMMON_ASSUME + ["z3 4.8.12 does not decide the 64-bit bvurem queries in 60 s; z3 5.1.0 (z3-new) and cvc5 --solve-bv-as-int=sum are used and must agree",
                                 "remote replicas are harness implementations of pb.DataManagerClient (a Go interface) keyed by node id; the local raft group is absent (a locally hosted owner returns RaftNotLoadedOnNodeErr), which is enough to observe which partition was consulted"],
)

HNSW_ASSUME = COMMON_ASSUME + [
    "vectors are 1-D grid points (integers 0..15 as float32, exact in IEEE arithmetic); the real portable Manhattan kernel is executed symbolically; Euclidean/cosine kernels are not separately explored (Hnsw only compares distances)",
    "insert levels are path decisions in {0,1} (RandomLevel is an environment stub); map iteration follows insertion order in the quick tier, rotations+reversals in the thorough tier",
]

PROPS["C01"] = dict(
    level="model_checking",
    technique="bounded symbolic execution of go/ssa (gosmt) + SMT (z3): histories are path decisions, vectors/query are solver variables",
    explanation="every insert/remove/save+load history up to the bound on a 4-id universe, every k, several index configurations; each result assertion discharged by z3 for all vector values on the path",
    runs={
        "quick": [
            dict(pkg="./index", entry="VerifC01", bounds="ops=5,cfg=0,maxlevel=0", reach=["searched"]),
            dict(pkg="./index", entry="VerifC01", bounds="ops=4,cfg=0,maxlevel=1", reach=["searched"]),
            dict(pkg="./index", entry="VerifC01", bounds="ops=4,cfg=2,maxlevel=0", reach=["searched"]),
            dict(pkg="./index", entry="VerifC01", bounds="ops=4,cfg=1,maxlevel=0,save=1,meta=1", reach=["searched"]),
            dict(pkg="./index", entry="VerifC01", bounds="ops=5,cfg=0,maxlevel=1,fresh=1,phase=1", reach=["searched"]),
            # the dataset-level clause (search on a whole dataset): the coordinator over real partitions on two nodes, and over
            # failing nodes - a dataset that holds items never answers with an empty list and a success status
            dict(pkg="./storage", entry="VerifC09Cluster", bounds="maxp=2,items=1,maxk=2", reach=["searched", "end"]),
            dict(pkg="./storage", entry="VerifC09", bounds="maxp=2,items=1,maxk=1", reach=["searched", "end"]),
        ],
        "thorough": [
            dict(pkg="./index", entry="VerifC01", bounds="ops=5,cfg=%d,maxlevel=1" % c, reach=["searched"]) for c in (0, 1, 2, 3, 5)
        ] + [
            dict(pkg="./index", entry="VerifC01", bounds="ops=4,cfg=%d,maxlevel=1,maporder=1" % c, reach=["searched"]) for c in (0, 2, 4, 6)
        ] + [
            dict(pkg="./index", entry="VerifC01", bounds="ops=5,cfg=1,maxlevel=0,save=1,meta=1", reach=["searched"]),
        ],
    },
    outside="histories longer than the bound; M>2; concurrent histories (C13); update (partition-level, covered by C02/C04 harnesses); dataset-level merge (C09); 2-D vectors",
    assumptions=HNSW_ASSUME,
)

PROPS["C02"] = dict(
    level="model_checking",
    technique="bounded symbolic execution of go/ssa (gosmt) + SMT (z3) against a sequential reference map kept by the harness",
    explanation="every sequence of the six partition change kinds (single and batch) up to the bound through the real partition.process on a real Hnsw; outcomes, Get, Len, metadata and BytesSize compared with the reference after every step",
    runs={
        "quick": [
            dict(pkg="./storage", entry="VerifC02", bounds="ops=3,kinds=3,ids=2,metashapes=3,maxlevel=1,cfg=0", reach=["end"]),
            dict(pkg="./storage", entry="VerifC02", bounds="ops=2,kinds=6,ids=2,metashapes=3,maxlevel=0,cfg=1", reach=["end"]),
            # metadata the snapshot format cannot represent: refused, nothing changed (also on the remove+insert update path)
            dict(pkg="./storage", entry="VerifC02", bounds="ops=2,kinds=6,ids=2,metashapes=2,longmeta=1,maxlevel=0,cfg=1", reach=["end"], must_assert=["unrepresentable-metadata-refused"]),
            # the entry-count limit (65535) on the merged metadata of an update: two maps of 40000 keys each
            dict(pkg="./storage", entry="VerifC02BigMeta", bounds="keys=40000", unwind=90000, workers=2, reach=["bigmeta-end"], must_assert=["unrepresentable-metadata-refused"]),
        ],
        "thorough": [
            dict(pkg="./storage", entry="VerifC02", bounds="ops=4,kinds=3,ids=2,metashapes=3,maxlevel=1,cfg=0", reach=["end"]),
            dict(pkg="./storage", entry="VerifC02", bounds="ops=3,kinds=6,ids=2,metashapes=2,maxlevel=0,cfg=1", reach=["end"]),
            dict(pkg="./storage", entry="VerifC02", bounds="ops=2,kinds=6,ids=3,metashapes=4,maxlevel=1,cfg=2", reach=["end"]),
            dict(pkg="./storage", entry="VerifC02", bounds="ops=3,kinds=3,ids=3,metashapes=3,maxlevel=1,cfg=3", reach=["end"]),
            dict(pkg="./storage", entry="VerifC02", bounds="ops=3,kinds=3,ids=2,metashapes=2,longmeta=1,maxlevel=0,cfg=1", reach=["end"], must_assert=["unrepresentable-metadata-refused"]),
        ],
    },
    outside="sequences longer than the bound; more than 2 items per batch; levels above 1 (the BytesSize link estimate is then a float expression, only its data part is claimed); the proposer side (C11)",
    assumptions=HNSW_ASSUME + ["proto.Marshal/Unmarshal are an opaque codec (deep copy of the message): protobuf is assumed to round-trip well-typed messages",
                               "the outcome is read from a buffered notification channel created by the harness (delivery to a waiting caller is C11)"],
)

PROPS["C08"] = dict(
    level="model_checking",
    technique="bounded symbolic execution of go/ssa (gosmt) + SMT (z3): Save -> fragmenting reader -> Load on symbolic index states; float payloads travel as opaque bit-vector variables through the real encoding/binary code",
    explanation="source state = every insert/remove history up to the bound (incl. empty index, removed entrypoint), metadata shapes incl. non-UTF8 and empty strings, header on/off, fresh/used target, reader delivering all / 1 / 2..5 bytes per call; loaded state compared field by field incl. links and byte counter; resave+reload compared again; key/value lengths around 2^8 / 2^16 as solver variables",
    runs={
        "quick": [
            dict(pkg="./index", entry="VerifC08", bounds="ops=3,reader=0,metashapes=2", reach=["loaded", "end"]),
            dict(pkg="./index", entry="VerifC08", bounds="ops=2,reader=1,header=0,target=0,metashapes=2", reach=["loaded", "end"]),
            dict(pkg="./index", entry="VerifC08", bounds="ops=2,reader=2,header=1,target=1,metashapes=3", reach=["loaded", "end"]),
            dict(pkg="./index", entry="VerifC08", bounds="ops=5,cfg=0,maxlevel=0,metashapes=1,header=0,target=0,reader=0", reach=["loaded", "end"]),
            dict(pkg="./index", entry="VerifC08Len", bounds="", unwind=70000, reach=["len-end", "insert-refused"]),
            # the limits count bytes: keys/values of two-byte characters around 255 / 65535 bytes
            dict(pkg="./index", entry="VerifC08Len", bounds="wide=1,klo=10,khi=10,vlo=10,vhi=10", unwind=70000, reach=["len-end", "insert-refused"]),
        ],
        "thorough": [
            dict(pkg="./index", entry="VerifC08", bounds="ops=4,reader=0,metashapes=2,cfg=1", reach=["loaded", "end"]),
            dict(pkg="./index", entry="VerifC08", bounds="ops=3,metashapes=3,cfg=0", reach=["loaded", "end"]),
            dict(pkg="./index", entry="VerifC08", bounds="ops=3,reader=1,metashapes=2,cfg=4", reach=["loaded", "end"]),
            dict(pkg="./index", entry="VerifC08Len", bounds="klo=250,khi=260,vlo=65530,vhi=65540", unwind=70000, reach=["len-end", "insert-refused"]),
        ],
    },
    outside="indexes with more than 3 items / 4 operations; more than 65535 metadata entries per item (uint16 count field; not constructible within the bound); memory use for foreign input; chunkings other than all/1/2..5 bytes per call",
    assumptions=HNSW_ASSUME + ["bit patterns of symbolic floats are opaque variables: only their transport through byte streams (extract/concat) is modelled, no program compares them"],
    replays_per_signature=1,
)

PROPS["C07"] = dict(
    level="model_checking",
    technique="bounded symbolic execution of go/ssa (gosmt) + SMT (z3) with a brute-force rank oracle over the same distance terms",
    explanation="insert-only collections of n <= 2M+1 symbolic points with n <= max(ef,k); every level assignment in {0,1}, ef, efConstruction, k, both selection modes; each returned score must have exactly the rank of its position among all n query distances",
    runs={
        "quick": [
            dict(pkg="./index", entry="VerifC07", bounds="m=1", reach=["searched"]),
            dict(pkg="./index", entry="VerifC07", bounds="m=2,maxlevel=0,modes=2,maxk=3", reach=["searched"]),
            # link budgets left to newHnswConfig's defaults (Mmax configured below M, Mmax0 defaulted)
            dict(pkg="./index", entry="VerifC07", bounds="m=2,maxlevel=0,modes=1,maxk=2,maxef=4,defaults=1", reach=["searched"]),
        ],
        "thorough": [
            dict(pkg="./index", entry="VerifC07", bounds="m=1,maporder=1", reach=["searched"]),
            dict(pkg="./index", entry="VerifC07", bounds="m=1,dim=2,grid=7,modes=2", reach=["searched"]),
            dict(pkg="./index", entry="VerifC07", bounds="m=2,maxlevel=0,modes=4,maxk=2,maxef=5", reach=["searched"]),
            dict(pkg="./index", entry="VerifC07", bounds="m=2,maxlevel=1,modes=1,maxk=3,maxef=4", reach=["searched"]),
            dict(pkg="./index", entry="VerifC07", bounds="m=2,maxlevel=0,modes=1,maxk=2,maxef=4,defaults=1", reach=["searched"]),
            dict(pkg="./index", entry="VerifC07", bounds="m=2,maxlevel=1,modes=2,maxk=2,maxef=4,defaults=2", reach=["searched"]),
        ],
    },
    outside="the recall floor on random sets of thousands of items (statistical, not decided); M>2; Euclidean/cosine kernels (Hnsw only compares distances; the Manhattan kernel is the one executed); levels above 1",
    assumptions=HNSW_ASSUME,
)

PROPS["C04"] = dict(
    level="model_checking",
    technique="bounded symbolic execution of go/ssa (gosmt) + SMT (z3): one symbolic log applied to three stand-alone replicas",
    explanation="log of up to 3 changes (all six kinds in the batch run) over 2 ids; replica B replays all bytes with independent map iteration orders; replica C has applied any prefix <= cut, restores the snapshot taken on A after entry cut (every cut 0..L), applies the rest; contents compared id by id, outcomes on A compared with the sequential reference",
    runs={
        "quick": [
            # a replica that applied a prefix, was removed from the partition and added again in the same process replays the whole log
            dict(pkg="./storage", entry="VerifC04", bounds="ops=3,kinds=3,ids=1,reload=1", reach=["end", "reloaded"]),
            # the partition object was snapshotted before (periodic compaction): the later snapshot must still describe the later state
            dict(pkg="./storage", entry="VerifC04", bounds="ops=3,metashapes=1,kinds=3,ids=1,maxlevel=0,earlysnap=1", reach=["end"]),
            dict(pkg="./storage", entry="VerifC04", bounds="ops=3,metashapes=1,kinds=3,ids=3,maxlevel=0", reach=["end"]),
            dict(pkg="./storage", entry="VerifC04", bounds="ops=3,metashapes=2,kinds=3,ids=2,maxlevel=0", reach=["end"]),
            dict(pkg="./storage", entry="VerifC04", bounds="ops=1,metashapes=2,kinds=6,maporder=1,ids=2,maxlevel=1", reach=["end"]),
            dict(pkg="./storage", entry="VerifC04", bounds="ops=2,metashapes=2,kinds=6,maporder=0,ids=2,maxlevel=0", reach=["end"]),
        ],
        "thorough": [
            dict(pkg="./storage", entry="VerifC04", bounds="ops=4,metashapes=2,kinds=3,ids=2,maxlevel=0", reach=["end"]),
            dict(pkg="./storage", entry="VerifC04", bounds="ops=4,metashapes=1,kinds=3,ids=2,maxlevel=0,earlysnap=1", reach=["end"]),
            dict(pkg="./storage", entry="VerifC04", bounds="ops=3,metashapes=2,kinds=3,ids=3,maxlevel=1", reach=["end"]),
            dict(pkg="./storage", entry="VerifC04", bounds="ops=2,metashapes=2,kinds=6,maporder=1,ids=2,maxlevel=1", reach=["end"]),
            dict(pkg="./storage", entry="VerifC04", bounds="ops=3,metashapes=2,kinds=6,cfg=1,ids=2,maxlevel=0", reach=["end"]),
        ],
    },
    outside="logs longer than the bound; graph shape (legitimately nondeterministic); transport of the snapshot; per-entry outcomes on followers are not observable (no notification channel exists there) - equality of contents after every log is what is compared",
    assumptions=HNSW_ASSUME + ["proto.Marshal/Unmarshal are an opaque codec (deep copy)"],
)

PROPS["C16"] = dict(
    level="model_checking",
    technique="bounded symbolic execution of go/ssa (gosmt): every Fisher-Yates outcome of every shuffle and every N,R,P in the bound is a path; independence is a cover obligation over all paths (no solver variables occur: the verdict is by exhaustive path enumeration)",
    explanation="Allocator.getPartitionsNodeIds over a real cluster.Conn address book; assertions on every list; cover: some shuffle outcome gives two partitions different replica sets",
    runs={
        "quick": [dict(pkg="./storage", entry="VerifC16", bounds="maxn=3,maxr=3,maxp=2", reach=["placed"],
                       cover=["two-partitions-can-get-different-replica-sets", "two-partitions-can-get-the-same-replica-set"]),
                  # a large cluster (more members than a machine word has bits): only the first two draws are path decisions
                  dict(pkg="./storage", entry="VerifC16Large", bounds="n=70,r=3,draws=2", unwind=200, reach=["placed"])],
        "thorough": [dict(pkg="./storage", entry="VerifC16", bounds="maxn=4,maxr=3,maxp=3,maporder=1", reach=["placed"],
                          cover=["two-partitions-can-get-different-replica-sets", "two-partitions-can-get-the-same-replica-set"]),
                     dict(pkg="./storage", entry="VerifC16Large", bounds="n=130,r=3,draws=2", unwind=400, reach=["placed"]),
                     dict(pkg="./storage", entry="VerifC16Large", bounds="n=70,r=100,draws=2", unwind=4000, reach=["placed"])],
    },
    replay_attempts=3000,
    outside="every N,R,P only for N<=4, R<=3, P<=3; for N=70 (130) one partition and only the first two draws of the shuffle as decisions, the rest of the permutation fixed; the distribution of placements (only possibility of difference is decided, not uniformity); embedding of the placement in the create-dataset proposal is covered by the C12/C14 harnesses",
    assumptions=COMMON_ASSUME + ["math/rand.Shuffle is replaced by a Fisher-Yates stub whose every choice is a path decision"],
)

PROPS["C09"] = dict(
    level="model_checking",
    technique="bounded symbolic execution of go/ssa (gosmt) with modelled goroutines/channels/select: schedules and select choices are path decisions, scores are solver variables (z3), rank oracle",
    explanation="(a) real Dataset.Search with its worker goroutines and collector over harness pb.SearchClient implementations: 1-2 partitions on 2 nodes with every replica choice (and 3 partitions on 3 nodes, one worker each), 0-2 items per partition with symbolic scores, per-node failure at open or mid-stream, k in 0..2; (b) end to end: the remote nodes are real Datasets with real local partitions and indexes, the clients call their real SearchPartitions; vectors and query symbolic; the answer must be the k best of the whole dataset under the true distances, no id twice although replicated partitions hold the same items, error when the asked node does not know a partition",
    runs={
        "quick": [
            dict(pkg="./storage", entry="VerifC09", bounds="maxp=2,race=1", reach=["searched", "end"]),
            # a result stream that breaks after its first item with a gRPC status error (Unavailable / Canceled / DeadlineExceeded)
            dict(pkg="./storage", entry="VerifC09", bounds="maxp=2,items=1,maxk=2,failmodes=4", reach=["searched", "end"]),
            dict(pkg="./storage", entry="VerifC09", bounds="minp=3,maxp=3,nodes=3,spread=1,items=2,mink=2,maxk=2,failmodes=1,race=1", reach=["searched", "end"]),
            dict(pkg="./storage", entry="VerifC09Cluster", bounds="maxp=2,items=1,maxk=2,race=1", reach=["searched", "end"]),
            dict(pkg="./storage", entry="VerifC09Cluster", bounds="maxp=1,items=2,maxk=3,race=1", reach=["searched", "end"]),
            # 17 and 33 partitions on one node (per-node chunking, caps): concrete distinct scores, one schedule
            dict(pkg="./storage", entry="VerifC09Many", bounds="", unwind=200, reach=["many-end"]),
        ],
        "thorough": [
            dict(pkg="./storage", entry="VerifC09", bounds="maxp=2,preempt=1,race=1", reach=["searched", "end"]),
            dict(pkg="./storage", entry="VerifC09", bounds="maxp=3,items=1,maxk=2,failmodes=2,race=1", reach=["searched", "end"]),
            dict(pkg="./storage", entry="VerifC09", bounds="maxp=2,items=2,maxk=2,failmodes=4", max_seconds=3000, reach=["searched", "end"]),
            dict(pkg="./storage", entry="VerifC09", bounds="minp=3,maxp=3,nodes=3,spread=1,items=2,maxk=2,failmodes=1,race=1", max_seconds=3000, reach=["searched", "end"]),
            dict(pkg="./storage", entry="VerifC09Cluster", bounds="maxp=2,items=2,maxk=2,stale=0,race=1", max_seconds=3000, reach=["searched", "end"]),
            dict(pkg="./storage", entry="VerifC09Cluster", bounds="maxp=2,items=2,maxk=3,race=1", max_seconds=3000, reach=["searched", "end"]),
        ],
    },
    outside="more than 3 partitions / 2 remote nodes; preemption between synchronisation operations (interleavings are explored at channel/lock/spawn granularity: blocking switches plus the stated number of voluntary preemptions); timeouts; the gRPC layer (the service handlers between client stub and Dataset.SearchPartitions only convert types)",
    assumptions=COMMON_ASSUME + ["data races: vector-clock happens-before detection (verifrt.RaceDetect) on every explored schedule; the harness' own recording objects are guarded by verifrt.HarnessLock","remote search services are harness implementations of pb.SearchClient / pb.Search_SearchPartitionsClient",
                                 "goroutines are interleaved at synchronisation points only (channel ops, select, locks, go, WaitGroup)"],
    replay_attempts=300,
    gomaxprocs1=True,
)

PROPS["C17"] = dict(
    level="model_checking",
    technique="bounded symbolic execution of go/ssa (gosmt) with modelled goroutines/channels: placements, failures and schedules are path decisions, remote sizes are 64-bit solver variables (z3)",
    explanation="real Dataset.SizeInfo with its lookup goroutines, closer and collector; local partitions hold real indexes, remote ones are harness pb.DataManagerClient implementations answering by the partition id in the request",
    runs={
        "quick": [dict(pkg="./storage", entry="VerifC17", bounds="maxp=3,placements=4,gone=0,race=1", reach=["sized", "end"]),
                  dict(pkg="./storage", entry="VerifC17", bounds="maxp=2,placements=4,gone=1,race=1", reach=["sized", "end"]),
                  # failing lookups that return gRPC status errors (Canceled, Unavailable, DeadlineExceeded) instead of a plain error
                  dict(pkg="./storage", entry="VerifC17", bounds="maxp=2,placements=4,gone=0,failkinds=4,race=1", reach=["sized", "end"]),
                  # the responder side: the real PartitionInfo handler asked about a dataset / partition it does not know must answer with an error, not with a zero
                  dict(pkg="./services", entry="VerifC12", bounds="rpclo=9,rpchi=9,maxdim=1", reach=["dataset-created", "handler-returned", "end"])],
        "thorough": [dict(pkg="./storage", entry="VerifC17", bounds="maxp=3,placements=4,preempt=2,gone=0,race=1", reach=["sized", "end"]),
                     dict(pkg="./storage", entry="VerifC17", bounds="maxp=3,placements=4,preempt=1,gone=1,race=1", reach=["sized", "end"]),
                     dict(pkg="./services", entry="VerifC12", bounds="rpclo=9,rpchi=9,maxdim=1", reach=["dataset-created", "handler-returned", "end"])],
    },
    outside="more than 3 partitions / 2 remote nodes (2 partitions in the quick run with departed nodes); caller-context cancellation; interleavings finer than synchronisation points",
    assumptions=COMMON_ASSUME + ["data races: vector-clock happens-before detection (verifrt.RaceDetect) on every explored schedule; the harness' own recording objects are guarded by verifrt.HarnessLock","remote data-manager services are harness implementations of pb.DataManagerClient",
                                 "goroutines are interleaved at synchronisation points only; the read of the captured loop variable is exposed because goroutine start is such a point"],
    replay_attempts=200,
    gomaxprocs1=True,
)

PROPS["C11"] = dict(
    level="model_checking",
    technique="bounded symbolic execution of go/ssa (gosmt) with modelled goroutines/channels/timers: caller/apply interleavings, commit/no-commit, owner reachability and batch composition are path decisions (no solver variables: verdict by exhaustive path enumeration)",
    explanation="real partition.insert/update/remove/batch* -> proposeAndWaitForCommit over a RaftGroup wrapping a harness etcdRaft.Node; an apply goroutine runs the real partition.process at any later scheduling point or never; Dataset.Insert/Update/Remove/Batch* with local and remote owners",
    runs={
        "quick": [
            dict(pkg="./storage", entry="VerifC11Local", bounds="maxcallers=2,preempt=1,race=1", reach=["callers-returned", "end2"]),
            dict(pkg="./storage", entry="VerifC11Remote", bounds="race=1", reach=["remote-end"]),
            dict(pkg="./storage", entry="VerifC11Batch", bounds="preempt=1,race=1", reach=["batch-end"]),
            dict(pkg="./storage", entry="VerifC11TwoNodes", bounds="preempt=1,race=1", reach=["two-nodes-returned"]),
            # the caller's deadline may expire at any scheduling point while its entry is being applied (racy timers)
            dict(pkg="./storage", entry="VerifC11Timeout", bounds="preempt=2,race=1", unwind=200, reach=["timeout-end"]),
        ],
        "thorough": [
            dict(pkg="./storage", entry="VerifC11Local", bounds="maxcallers=2,preempt=2,race=1", reach=["callers-returned", "end2"]),
            dict(pkg="./storage", entry="VerifC11Remote", bounds="race=1", reach=["remote-end"]),
            dict(pkg="./storage", entry="VerifC11Batch", bounds="preempt=2,race=1", reach=["batch-end"]),
            dict(pkg="./storage", entry="VerifC11TwoNodes", bounds="preempt=2,race=1", reach=["two-nodes-returned"]),
        ],
    },
    outside="more than 2 concurrent callers; real raft (Propose is a harness stub that feeds an apply goroutine); the proposal timeout fires only when every goroutine is blocked (computation is fast relative to the 5 s timeout)",
    assumptions=COMMON_ASSUME + ["data races: vector-clock happens-before detection (verifrt.RaceDetect) on every explored schedule; the harness' own recording objects are guarded by verifrt.HarnessLock","etcdRaft.Node is a harness implementation; RaftGroup is built by an overlay-only constructor (storage/raft/zz_verif_export.go)",
                                 "Hnsw.RandomLevel draws from the stubbed math/rand (constant)"],
    replay_attempts=300,
    gomaxprocs1=True,
)

PROPS["C18"] = dict(
    level="model_checking",
    technique="bounded symbolic execution of go/ssa (gosmt) with modelled goroutines, channels, select, RWMutex (writer preference) and timers: schedules and select choices are path decisions; deadlock = watchdog timer that can only fire when every goroutine is blocked (no solver variables: verdict by exhaustive path enumeration)",
    explanation="real Allocator.run/watch/unwatch/addNodeToPartitions/removeNodeFromPartitions and cluster.Conn.AddNode/RemoveNode/NodeChangesNotifications driven by a catalogue goroutine and a membership goroutine; afterwards one more catalogue change must go through",
    runs={
        "quick": [dict(pkg="./storage", entry="VerifC18", bounds="preempt=1,race=1", reach=["drivers-returned", "end"]),
                  dict(pkg="./storage", entry="VerifC18", bounds="preempt=1,replicaless=1,race=1", reach=["drivers-returned", "end"]),
                  # scripted drivers over the REAL catalogue: DatasetManager.process (creates/deletes holding the catalogue lock), the
                  # real Allocator loop with local partitions and its proposals (to a catalogue group that never commits), real Conn
                  dict(pkg="./storage", entry="VerifC18Catalogue", bounds="preempt=0", unwind=400, no_native=True, reach=["drivers-returned", "end"]),
                  # the burst a restart replays: 12 further membership changes applied back to back (more than the allocator's
                  # notification buffer holds) while the loop is busy proposing for two watched partitions; one schedule per history
                  dict(pkg="./storage", entry="VerifC18Catalogue", bounds="preempt=0,burst=12,det=1", unwind=400, no_native=True, reach=["drivers-returned", "end"]),
                  # restart with existing datasets and joins during creates/deletes on real Servers over the REAL etcd/raft
                  dict(pkg=".", entry="VerifC14Raft", bounds="members=2", unwind=4000, no_native=True, reach=["settled", "restarted", "end"])],
        # (preempt=3,race=1 did not finish within 5400 s when the thorough tier was validated end to end: not registered)
        "thorough": [dict(pkg="./storage", entry="VerifC18", bounds="preempt=1,race=1", reach=["drivers-returned", "end"]),
                     dict(pkg="./storage", entry="VerifC18", bounds="preempt=2,replicaless=1,race=1", reach=["drivers-returned", "end"]),
                     dict(pkg="./storage", entry="VerifC18Catalogue", bounds="preempt=0", unwind=400, no_native=True, reach=["drivers-returned", "end"]),
                     dict(pkg="./storage", entry="VerifC18Catalogue", bounds="preempt=0,burst=14,det=1", unwind=400, no_native=True, reach=["drivers-returned", "end"]),
                     dict(pkg="./storage", entry="VerifC18Catalogue", bounds="preempt=0,burst=3", unwind=400, no_native=True, max_seconds=3000, reach=["drivers-returned", "end"]),
                     dict(pkg=".", entry="VerifC14Raft", bounds="members=3", unwind=4000, no_native=True, max_seconds=5400, reach=["settled", "restarted", "end"])],
    },
    outside="in the scripted-driver harness the watched partitions live elsewhere (loadRaft/unloadRaft/proposeAddNode are not exercised there) and its raft commits at once; the real-raft harness (VerifC14Raft) covers restart with existing datasets, a join during creates/deletes, local partitions and the allocator's proposals, within: 2 members (3 thorough), <=2 datasets with 1 partition, one restart, one message fault (thorough), one deterministic goroutine schedule per history",
    assumptions=COMMON_ASSUME + ["data races: vector-clock happens-before detection (verifrt.RaceDetect) on every explored schedule; the harness' own recording objects are guarded by verifrt.HarnessLock","sync.RWMutex is modelled with Go's writer preference (a pending Lock blocks new RLocks)"],
    replay_attempts=200,
    gomaxprocs1=True,
)

PROPS["C06"] = dict(
    level="model_checking",
    technique="bounded symbolic execution of go/ssa (gosmt) + SMT (z3): differential run of the real badgerWAL against etcd's real MemoryStorage over an API-level Badger model; call kinds and indexes are path decisions, terms are solver variables travelling through the real gogo-generated raftpb Marshal/Unmarshal/Size code",
    explanation="sequences of Save(appends incl. conflicting overwrites, hard state), Save(received snapshot below/at/above the last index), CreateSnapshot+compaction, reopen; after every call every read (FirstIndex, LastIndex, Term(i), Entries prefixes/suffixes under size limits, Snapshot, InitialState) is compared with MemoryStorage driven per the raft contract; a second group in the same database must be unaffected; DeleteGroup + new store must look fresh",
    runs={
        "quick": [
            dict(pkg="./storage/wal", entry="VerifC06", bounds="calls=2,kinds=4,delete=1", unwind=300, reach=["end"]),
            dict(pkg="./storage/wal", entry="VerifC06", bounds="calls=3,kinds=4,delete=0,batch=1,cmpall=0", unwind=300, reach=["end"]),
        ],
        "thorough": [
            dict(pkg="./storage/wal", entry="VerifC06", bounds="calls=3,kinds=4,delete=1,batch=2", unwind=300, reach=["end"]),
            dict(pkg="./storage/wal", entry="VerifC06", bounds="calls=4,kinds=4,delete=0,batch=1,cmpall=0", unwind=400, reach=["end"]),
            dict(pkg="./storage/wal", entry="VerifC06", bounds="calls=3,kinds=4,delete=1,batch=1,gid=1", unwind=300, reach=["end"]),
        ],
    },
    outside="Badger's own durability/compaction (API-level model; natively the replay uses a real in-memory Badger); more than 4 calls, batches over 2 entries, terms >= 100 (multi-byte varints); group ids chosen so that one group's 16-byte id is a prefix of another group's 18-byte 'hs'/'ss' key (ids are server-generated random UUIDs); concurrent use of one WAL",
    assumptions=COMMON_ASSUME + ["Badger is an API-level model (ordered key/value set; View/Update/iterators with prefix, reverse and seek; WriteBatch applied in call order at Flush)",
                                 "the reference is etcd MemoryStorage driven as the raft contract prescribes (append; hard state only if non-empty; snapshot only if non-empty), not the repository's memoryWAL.Save, which overwrites the hard state with an empty one"],
)

PROPS["C12"] = dict(
    level="model_checking",
    technique="bounded symbolic execution of go/ssa (gosmt): a one-node server assembled from the real components is executed on every request shape in the bound; request shapes are path decisions (no solver variables: verdict by exhaustive path enumeration of the symbolic executor), panics / fatal logs / deadlocks are the violations",
    explanation="real RPC handlers of DataManager, Search and DatasetManager over the real DatasetManager, Dataset, partitions, RaftGroup ready loops, badgerWAL (Badger API model), Allocator and cluster.Conn; raft nodes are harness nodes that commit each proposal immediately, so every proposal is applied by the real ready loop (an apply error is log.Fatal there)",
    runs={
        "quick": [
            dict(pkg="./services", entry="VerifC12", bounds="rpclo=0,rpchi=2", reach=["dataset-created", "handler-returned", "end"]),
            dict(pkg="./services", entry="VerifC12", bounds="rpclo=3,rpchi=8,mindim=1,minp=1,minr=1,spaces=1,maxdim=1,levelshapes=1", reach=["dataset-created", "handler-returned", "end"]),
            dict(pkg="./services", entry="VerifC12", bounds="rpclo=9,rpchi=17,maxdim=1", reach=["dataset-created", "handler-returned", "end"]),
            # catalogue shapes: a negative metric enum value; partitions that lost their only replica (the committed change the allocator proposes when a node leaves)
            dict(pkg="./services", entry="VerifC12", bounds="rpclo=0,rpchi=2,spaces=3,mindim=1,maxdim=1,minp=1,maxp=1,minr=1,idshapes=2,vecshapes=1,valshapes=1,metashapes=1,noreplica=1", reach=["dataset-created", "handler-returned", "end"]),
            dict(pkg="./services", entry="VerifC12", bounds="rpclo=3,rpchi=17,noreplica=1,spaces=1,mindim=1,maxdim=1,minp=1,maxp=1,minr=1,idshapes=1,vecshapes=1,valshapes=1,metashapes=1,levelshapes=1,kshapes=1", reach=["dataset-created", "handler-returned", "end"]),
            # client-supplied BatchItem.level (0, negative, huge) on the batch insert paths
            dict(pkg="./services", entry="VerifC12", bounds="rpclo=3,rpchi=6,levelshapes=3,idshapes=2,vecshapes=1,valshapes=1,metashapes=1,mindim=1,minp=1,minr=1,spaces=1,maxdim=1", reach=["dataset-created", "handler-returned", "end"]),
            # over-long metadata keys/values on every write path; the resulting state must snapshot and restore
            dict(pkg="./services", entry="VerifC12", bounds="rpclo=0,rpchi=7,metashapes=4,idshapes=1,vecshapes=1,valshapes=1,levelshapes=1,mindim=1,minp=1,minr=1,spaces=1,maxdim=1,maxp=1", reach=["dataset-created", "handler-returned", "end"]),
        ],
        "thorough": [
            dict(pkg="./services", entry="VerifC12", bounds="rpclo=0,rpchi=2,valshapes=3,metashapes=2", reach=["dataset-created", "handler-returned", "end"]),
            dict(pkg="./services", entry="VerifC12", bounds="rpclo=3,rpchi=8,mindim=1,minp=1,minr=1,spaces=1,maxdim=2,levelshapes=1", max_seconds=3000, reach=["dataset-created", "handler-returned", "end"]),
            dict(pkg="./services", entry="VerifC12", bounds="rpclo=3,rpchi=8,mindim=1,minp=1,minr=1,spaces=1,maxdim=1,levelshapes=3", max_seconds=3000, reach=["dataset-created", "handler-returned", "end"]),
            dict(pkg="./services", entry="VerifC12", bounds="rpclo=0,rpchi=8,metashapes=4,idshapes=2,vecshapes=2,valshapes=1,levelshapes=1,mindim=1,minp=1,minr=1,spaces=1,maxdim=1", max_seconds=3000, reach=["dataset-created", "handler-returned", "end"]),
            dict(pkg="./services", entry="VerifC12", bounds="rpclo=9,rpchi=17,maxdim=2,valshapes=3", reach=["dataset-created", "handler-returned", "end"]),
            dict(pkg="./services", entry="VerifC12", bounds="rpclo=0,rpchi=17,spaces=3,mindim=1,maxdim=1,minp=1,maxp=2,minr=1,idshapes=2,vecshapes=2,valshapes=1,metashapes=1,levelshapes=1,kshapes=1,noreplica=1", max_seconds=3000, reach=["dataset-created", "handler-returned", "end"]),
            dict(pkg="./services", entry="VerifC12", bounds="rpclo=0,rpchi=17,mindim=1,minp=1,minr=1,spaces=1,maxdim=1,det=0,idshapes=2,vecshapes=2", max_seconds=3000, reach=["dataset-created", "handler-returned", "end"]),
        ],
    },
    outside="the gRPC framing layer and a live multi-node process; requests in sequence beyond create + optional insert + one hostile request + list; oversized batches beyond the cap check itself; a restart that replays the log (every proposal is applied once by the real ready loop; replay on a fresh replica is not re-executed); one schedule per request (deterministic scheduling) except in the last thorough run",
    assumptions=COMMON_ASSUME + ["etcd raft nodes are harness nodes (verifrt.Hook) committing each proposal at once; natively the replay uses real single-member raft nodes",
                                 "Badger is the API-level model; gRPC dialling fails in the model (a one-node dataset search that dials its own address returns an error)",
                                 "SIMD wrappers are modelled by their Go part (&a[0], &b[0]) followed by the portable kernel"],
    replay_attempts=1,
    replays_per_signature=1,
)

PROPS["C14"] = dict(
    level="model_checking",
    technique="bounded symbolic execution of go/ssa (gosmt): catalogue logs, snapshot cuts, applied prefixes and restart scenarios are path decisions (no solver variables: verdict by exhaustive path enumeration of the symbolic executor)",
    explanation="(a) real DatasetManager.process/snapshot/processSnapshot: every log of create/delete/replica-set changes over 2 dataset ids, every cut, every applied prefix: full replay, and snapshot restore + replay of the rest, must give the same catalogue, and deleted datasets' partitions must not stay watched; (b) the real Server.setup wiring executed twice on one data directory (Badger model persists per Dir) with a harness raft node that re-delivers the stored log on (re)start: acknowledged creates/deletes must be listed/absent after the restart, with and without a compacted catalogue; (c) a cluster of 2-3 real Servers over the shared committed log and in-memory gRPC transport of the C20 harness: datasets created through any member before and after the second member joined (replication factor possibly above the member count, so the allocator adds the joiner as a replica through the catalogue), deleted through any member, leader compaction, a late third member caught up from log or snapshot, restart of any member: every live member lists the same datasets, partitions and replica assignment, acknowledged creates listed, acknowledged deletes absent",
    runs={
        "quick": [
            dict(pkg="./storage", entry="VerifC14", bounds="ops=3", reach=["end"]),
            dict(pkg=".", entry="VerifC14Restart", bounds="preempt=0", no_native=True, reach=["restarted", "end"]),
            dict(pkg=".", entry="VerifC14Restart", bounds="preempt=1,det=0,maxcreates=1,nodelete=1,nosnap=1", no_native=True, reach=["restarted", "end"]),
            dict(pkg=".", entry="VerifC14Cluster", bounds="members=2", no_native=True, reach=["settled", "restarted", "partition-with-two-replicas", "end"]),
            # replica lists of three nodes, any of which may leave (snapshot restore onto a replica with a stale list)
            dict(pkg="./storage", entry="VerifC14", bounds="ops=3,datasets=1,replicas=3", reach=["end"]),
            # real Servers over the REAL etcd/raft (zero group and partition groups), virtual clock
            dict(pkg=".", entry="VerifC14Raft", bounds="members=2", unwind=4000, no_native=True, reach=["settled", "restarted", "end"]),
            # a third member is down while a dataset is deleted and the leader compacts: it is caught up by a snapshot
            dict(pkg=".", entry="VerifC14Raft", bounds="members=3,lagdelete=1,norestart=1", unwind=4000, no_native=True, reach=["settled", "end"]),
            # a CRASH instead of a graceful stop: the member's process is killed at any durable write of its store (before / after a
            # write batch or a committing transaction), restarted on the same directory; one voter, then two members incl. the join handshake
            dict(pkg=".", entry="VerifC14Crash", bounds="members=1,creates=2,maxflush=14", unwind=4000, no_native=True, reach=["written", "restarted", "end"]),
            dict(pkg=".", entry="VerifC14Crash", bounds="members=2,creates=1,maxflush=12,crashjoin=1", unwind=4000, no_native=True, reach=["written", "restarted", "end"]),
        ],
        "thorough": [
            dict(pkg="./storage", entry="VerifC14", bounds="ops=4,datasets=2", reach=["end"]),
            dict(pkg="./storage", entry="VerifC14", bounds="ops=3,datasets=3,det=0", reach=["end"]),
            dict(pkg=".", entry="VerifC14Restart", bounds="preempt=0", no_native=True, reach=["restarted", "end"]),
            # (preempt=1,det=0,maxcreates=1 with deletes and snapshots did not finish in 3000 s: 1 002 057 paths, no violation; not registered)
            dict(pkg=".", entry="VerifC14Restart", bounds="preempt=1,det=0,maxcreates=1,nodelete=1,nosnap=1", no_native=True, reach=["restarted", "end"]),
            dict(pkg=".", entry="VerifC14Cluster", bounds="members=3", no_native=True, max_seconds=3000, reach=["settled", "restarted", "partition-with-two-replicas", "end"]),
            dict(pkg="./storage", entry="VerifC14", bounds="ops=4,datasets=1,replicas=3", reach=["end"]),
            dict(pkg=".", entry="VerifC14Raft", bounds="members=2,maxp=2", unwind=4000, no_native=True, max_seconds=5400, reach=["settled", "restarted", "end"]),
            dict(pkg=".", entry="VerifC14Raft", bounds="members=3", unwind=4000, no_native=True, max_seconds=5400, reach=["settled", "restarted", "end"]),
            dict(pkg=".", entry="VerifC14Raft", bounds="members=3,lagdelete=1", unwind=4000, no_native=True, max_seconds=5400, reach=["settled", "restarted", "end"]),
            dict(pkg=".", entry="VerifC14Crash", bounds="members=1,creates=3,maxflush=24", unwind=4000, no_native=True, max_seconds=5400, reach=["written", "restarted", "end"]),
            dict(pkg=".", entry="VerifC14Crash", bounds="members=2,creates=2,maxflush=20,crashjoin=1", unwind=4000, no_native=True, max_seconds=5400, reach=["written", "restarted", "end"]),
        ],
    },
    outside="what etcd/raft does between propose and commit (the cluster harness hands every member the same committed log); re-creation of a deleted dataset under the same id (ids are server generated); crash harness (VerifC14Crash): one crash per history, <=2 members, <=2 creates and one delete through the bootstrap member, Badger as the API-level model (a write batch / committing transaction is atomic); partitions assigned to the local node in the state-machine harness (their raft loading is exercised by the restart harness and by C12)",
    assumptions=COMMON_ASSUME + ["the etcd raft node is a harness node that commits every proposal at once, re-delivers the stored entries after the snapshot on (re)start and appends the bootstrap membership entry on StartNode",
                                 "net.Listen, grpc.NewServer and service registration are stubs; Badger is the API-level model with contents shared per Dir"],
)

GLUE_ASSUME = COMMON_ASSUME + [
    "consensus itself (etcd/raft) and the storage engine (Badger) are trusted: what is decided is the host-loop obligations etcd/raft documents (persist before apply/send, apply in order, ApplyConfChange for every membership entry, Advance last, restart instead of bootstrap on an existing log)",
    "etcdRaft.Node is a harness node feeding Ready values; the WAL is a recording wal.WAL over etcd's MemoryStorage; peers are recording pb.RaftTransportClient implementations; RaftGroup is built by the overlay-only constructor VerifNewRaftGroup",
    "tickers fire only when every goroutine is blocked",
]

PROPS["C03"] = dict(
    level="model_checking",
    technique="bounded symbolic execution of go/ssa (gosmt): the real RaftGroup.run select loop is fed every Ready shape in the bound by a harness raft node; the recorded event trace is checked for every crash instant (= every trace prefix); Ready shapes are path decisions (no solver variables: verdict by exhaustive path enumeration)",
    explanation="(1) end to end on one node: a real partition with its real ready loop and Badger-backed WAL takes acknowledged writes, optionally compacts into a local snapshot, crashes before/after any durable write (the flushing goroutine blocks forever), and a second instance on the same database must recover exactly the acknowledged history, optionally plus the in-flight write (harness raft node re-delivers the stored log). (2) glue obligations: nothing is applied (hence acknowledged) before the Ready's hard state, entries and received snapshot were handed to the WAL; a received snapshot is applied before the committed entries; every committed entry is applied once, in order; a local snapshot is labelled with the index of the last applied entry and its data is produced right before; a stored snapshot is restored by Start before any Ready is consumed. What the WAL then answers after a crash/reopen is C06; what etcd/raft re-delivers after restart and Badger's durability are trusted",
    runs={
        "quick": [
            dict(pkg="./storage/raft", entry="VerifC03", bounds="readys=1,maxmessages=0", reach=["readys-handled", "local-snapshot-taken", "end"]),
            dict(pkg="./storage/raft", entry="VerifC03", bounds="readys=2,maxmessages=1,msgtypes=1,destinations=1,maxcommitted=1,maxentries=0,snapshots=0,zerogroup=1,storedsnap=0,peerfails=0", reach=["readys-handled", "local-snapshot-taken", "end"]),
            dict(pkg="./storage", entry="VerifC03Crash", bounds="ops=2", no_native=True, reach=["restarted", "end"]),
            # three replicas of a real partition over the REAL etcd/raft: a minority crashes at a durable-write boundary and restarts
            dict(pkg="./storage", entry="VerifC03Cluster", bounds="ops=2,ids=1,crashes=1,maxflush=6,compact=1", unwind=4000, no_native=True, reach=["written", "restarted", "end"]),
            # scripted history insert a, insert b, remove a: a replica that misses the removal is caught up by a non-empty snapshot
            dict(pkg="./storage", entry="VerifC03Cluster", bounds="ops=3,ids=2,script=1,crashes=1,maxflush=8,compact=1", unwind=4000, no_native=True, reach=["written", "restarted", "end"]),
            # a whole real Server (catalogue group + partition group over the real etcd/raft, one store) killed at any durable write
            # while items are inserted / removed, restarted on the same directory: exactly the acknowledged items
            dict(pkg=".", entry="VerifC14Crash", bounds="members=1,creates=1,deletes=0,items=3,maxflush=34,compactitems=1", unwind=4000, no_native=True, reach=["written", "restarted", "items-checked", "end"]),
            # the same with two Servers and a two-replica partition group the allocator loads on both: either member killed, both must hold exactly the acknowledged items
            dict(pkg=".", entry="VerifC14Crash", bounds="members=2,creates=1,deletes=0,items=2,maxflush=24", unwind=4000, no_native=True, reach=["written", "restarted", "items-checked", "end"]),
        ],
        "thorough": [
            dict(pkg="./storage/raft", entry="VerifC03", bounds="readys=1,maxmessages=1,msgtypes=2", reach=["readys-handled", "end"]),
            dict(pkg="./storage/raft", entry="VerifC03", bounds="readys=2,maxmessages=0,maxcommitted=2,maxentries=1,zerogroup=1,peerfails=0", max_seconds=3000, reach=["readys-handled", "end"]),
            dict(pkg="./storage/raft", entry="VerifC03", bounds="readys=1,maxmessages=0,det=0,preempt=1,zerogroup=1,storedsnap=0,peerfails=0", max_seconds=3000, reach=["readys-handled", "end"]),
            dict(pkg="./storage", entry="VerifC03Crash", bounds="ops=3", no_native=True, reach=["restarted", "end"]),
            dict(pkg="./storage", entry="VerifC03Crash", bounds="ops=3,cfg=1,ids=3,snapshots=0", no_native=True, reach=["restarted", "end"]),
            dict(pkg="./storage", entry="VerifC03Cluster", bounds="ops=2,ids=2,crashes=1,partitions=1,maxflush=8", unwind=4000, no_native=True, max_seconds=5400, reach=["written", "restarted", "end"]),
            dict(pkg="./storage", entry="VerifC03Cluster", bounds="ops=2,ids=2,crashes=1,maxflush=10,compact=1", unwind=4000, no_native=True, max_seconds=5400, reach=["written", "restarted", "end"]),
            dict(pkg="./storage", entry="VerifC03Cluster", bounds="ops=2,ids=2,faults=1", unwind=4000, no_native=True, max_seconds=5400, reach=["written", "end"]),
            dict(pkg="./storage", entry="VerifC03Cluster", bounds="ops=3,ids=1,crashes=1,maxflush=8", unwind=4000, no_native=True, max_seconds=5400, reach=["written", "restarted", "end"]),
            dict(pkg=".", entry="VerifC14Crash", bounds="members=1,creates=2,deletes=1,items=4,maxflush=44", unwind=4000, no_native=True, max_seconds=5400, reach=["written", "restarted", "items-checked", "end"]),
            dict(pkg=".", entry="VerifC14Crash", bounds="members=2,creates=1,deletes=0,items=2,maxflush=24", unwind=4000, no_native=True, max_seconds=5400, reach=["written", "restarted", "items-checked", "end"]),
        ],
    },
    outside="more than 3 replicas / 3 writes; more than one crashed replica (a minority of 3), crash instants other than the durable-write boundaries of the crashed replica's store; one partition, one message fault; batch writes in the cluster harness; goroutine schedules other than the deterministic one between harness-driven ticks; Badger's own durability (the API-level model makes a flushed batch durable atomically); more than 2 Readys in the Ready-shape harness",
    assumptions=GLUE_ASSUME + [
        "VerifC03Cluster: etcd/raft is NOT stubbed (real SSA interpreted); replicas are real partitions (real index, apply path, proposeAndWaitForCommit, ready loop, badgerWAL over the Badger API model); network, crash points and time as in VerifC05Raft; a write is acknowledged when the caller got nil / already exists / not found, in flight when no answer arrived within the round bound; proposalTimeout is modelled by abandoning a pending sentinel write after 50 ticks",
    ],
    no_native_replay=True,
)

PROPS["C05"] = dict(
    level="model_checking",
    technique="bounded symbolic execution of go/ssa (gosmt): the real ready loop under every Ready shape in the bound (messages of five types to reachable / unreachable / failing peers, leader and follower states), a 3-replica group of real RaftGroups around the REAL etcd/raft (StartNode/RestartNode/node.run interpreted) over real badgerWALs behind a harness network whose message faults, partition, crash points and restarts are path decisions, and the real Server.setup / partition loading executed twice on one data directory to observe StartNode vs RestartNode; all choices are path decisions (no solver variables)",
    explanation="reduced claim (DESIGN.md section 5 C05): a non-leader sends no message of a Ready before that Ready was saved (votes / append acknowledgements never leave before the state they attest is durable); every membership entry reaches ApplyConfChange once, in order, and only the zero group feeds the address book; undeliverable messages and snapshot outcomes are reported back to raft; Advance comes last; a group whose store holds durable state is restarted, not bootstrapped again. Agreement of applied entries across replicas under loss/duplication/partitions rests on etcd/raft given these obligations and is not decided",
    runs={
        "quick": [
            dict(pkg="./storage/raft", entry="VerifC03", bounds="readys=1,maxcommitted=1,maxentries=1,snapshots=0,storedsnap=0,zerogroup=1", reach=["readys-handled", "end"]),
            dict(pkg=".", entry="VerifC05Boot", bounds="", no_native=True, reach=["restarted", "boot-end"]),
            # three replicas with the REAL etcd/raft, real ready loops and real badgerWAL behind a faulty network
            dict(pkg="./storage/raft", entry="VerifC05Raft", bounds="nodes=3,faults=1,proposals=2", unwind=4000, no_native=True, reach=["phase1", "end"]),
            dict(pkg="./storage/raft", entry="VerifC05Raft", bounds="nodes=3,faults=0,crashes=1,partitions=1,proposals=3,rounds=70,maxflush=12", unwind=4000, no_native=True, reach=["phase1", "restarted", "end"]),
            dict(pkg="./storage/raft", entry="VerifC05Raft", bounds="nodes=3,faults=0,partitions=1,restarts=1,proposals=3,rounds=70,compact=1", unwind=4000, no_native=True, reach=["phase1", "restarted", "snapshot-restored", "end"]),
            dict(pkg="./storage/raft", entry="VerifC05Raft", bounds="nodes=3,faults=0,crashes=1,proposals=2,compact=1,maxflush=10", unwind=4000, no_native=True, reach=["phase1", "restarted", "end"]),
        ],
        "thorough": [
            dict(pkg="./storage/raft", entry="VerifC05Raft", bounds="nodes=3,faults=1,proposals=3,rounds=50", unwind=4000, no_native=True, max_seconds=5400, reach=["phase1", "end"]),
            dict(pkg="./storage/raft", entry="VerifC05Raft", bounds="nodes=3,faults=0,crashes=1,partitions=1,proposals=3,rounds=70,maxflush=18", unwind=4000, no_native=True, max_seconds=5400, reach=["phase1", "restarted", "end"]),
            dict(pkg="./storage/raft", entry="VerifC05Raft", bounds="nodes=3,faults=0,partitions=1,restarts=1,proposals=4,rounds=80,compact=1", unwind=4000, no_native=True, max_seconds=5400, reach=["phase1", "restarted", "snapshot-restored", "end"]),
            dict(pkg="./storage/raft", entry="VerifC05Raft", bounds="nodes=3,faults=1,proposals=2,compact=1", unwind=4000, no_native=True, max_seconds=5400, reach=["phase1", "end"]),
            dict(pkg="./storage/raft", entry="VerifC05Raft", bounds="nodes=3,faults=0,crashes=1,partitions=1,restarts=1,proposals=3,rounds=70,compact=1,maxflush=14", unwind=4000, no_native=True, max_seconds=5400, reach=["phase1", "restarted", "end"]),
            dict(pkg="./storage/raft", entry="VerifC05Raft", bounds="nodes=3,faults=2,proposals=1,netactions=3,rounds=24,minrounds=12,healrounds=60", unwind=4000, no_native=True, max_seconds=5400, reach=["phase1", "end"]),
            dict(pkg="./storage/raft", entry="VerifC03", bounds="readys=1,maxcommitted=1,maxentries=1,msgtypes=5", reach=["readys-handled", "end"]),
            dict(pkg="./storage/raft", entry="VerifC03", bounds="readys=2,maxmessages=1,msgtypes=3,destinations=2,maxcommitted=1,maxentries=0,snapshots=0,zerogroup=0,storedsnap=0", max_seconds=3000, reach=["readys-handled", "end"]),
            dict(pkg=".", entry="VerifC05Boot", bounds="", no_native=True, reach=["restarted", "boot-end"]),
        ],
    },
    outside="more than 3 replicas; more than 1 message fault (2 thorough), 1 partition, 1 crash or restart per history; fault positions other than the decision points of the harness (partition start: first leader and after each proposal; heal: every 6 rounds; crash: durable-write boundaries of one replica's store); membership changes during faults; goroutine interleavings other than the deterministic schedule (SchedDeterministic) between harness-driven ticks; election timeouts are a fixed sequence of draws; the leader path is allowed to send before saving (raft's contract)",
    assumptions=GLUE_ASSUME + [
        "VerifC05Raft: etcd/raft is NOT stubbed (its real SSA is interpreted); the network is a harness pb.RaftTransportClient placed in RaftTransport.nodeClients; Badger is the API-level model, one database per replica; a crash = the goroutine flushing a WAL batch never returns and the instance is abandoned; time = harness-driven Tick() of every live replica per round, then all goroutines run until blocked; raft's randomized election timeout is a fixed sequence of draws (hook raft-rand)",
        "VerifC05Raft state machine: the list of applied payloads with snapshot = serialised list; durability of what a message attests is read through a fresh badgerWAL handle on the sender's database at the instant the message leaves",
    ],
    no_native_replay=True,
)


PROPS["C20"] = dict(
    level="model_checking",
    technique="bounded symbolic execution of go/ssa (gosmt): real Servers (Server.setup / JoinCluster, NodesManager, the gRPC AddNode handler and client stub, zero-group ready loops, trySnapshot, shared-group snapshot/processSnapshot, badgerWAL) assembled into a 1-3 member cluster over an in-memory gRPC transport, (a) over the REAL etcd/raft (interpreted; message faults, a leader stop right after an acknowledged join, compaction, restarts as path decisions) and (b) over a shared committed log; join order, broken handshakes, removals, compaction points and restarts are path decisions (no solver variables: verdict by exhaustive path enumeration of the symbolic executor)",
    explanation="reduced claim (DESIGN.md section 5 C20): (a) cluster of up to 3 real Servers: members join one after the other through the real handshake (stream optionally broken after any message, joiner restarted and retried), the last one is optionally removed, the leader optionally compacts after any change, any one member restarts with its original command line or with -join=false; after quiescence every live member of the configuration lists exactly the acknowledged members with the addresses they announced; (b) one member over up to 3 lives on one data directory with joins/removals/compaction in each life; (c) a zero-group snapshot installed on another member teaches it every listed peer and no removed one. What etcd/raft does between proposing and committing (elections, message loss/reordering between raft peers) is not decided: the members' zero groups share one committed log",
    runs={
        "quick": [
            dict(pkg=".", entry="VerifC20Cluster", bounds="members=2", no_native=True, reach=["joined", "restarted", "end"]),
            dict(pkg=".", entry="VerifC20Cluster", bounds="members=3", no_native=True, reach=["joined", "restarted", "end"]),
            dict(pkg=".", entry="VerifC20Restart", bounds="lives=2,maxchanges=2", no_native=True, reach=["restarted", "end"]),
            dict(pkg=".", entry="VerifC20Install", bounds="maxchanges=2", no_native=True, reach=["installed"]),
            # real Servers over the REAL etcd/raft and an in-memory gRPC transport
            dict(pkg=".", entry="VerifC20Raft", bounds="members=2,leadercrash=1", unwind=4000, no_native=True, reach=["joined", "restarted", "end"]),
            dict(pkg=".", entry="VerifC20Raft", bounds="members=3,leadercrash=1,compact=1", unwind=4000, no_native=True, reach=["joined", "restarted", "end"]),
            dict(pkg=".", entry="VerifC20Raft", bounds="members=3,faults=1,removal=0", unwind=4000, no_native=True, reach=["joined", "restarted", "end"]),
            # a member is down during a removal; the removed member re-joins through it before it caught up
            dict(pkg=".", entry="VerifC20Raft", bounds="members=3,rejoin=1", unwind=4000, no_native=True, reach=["joined", "end"]),
            # a member that comes back on its data directory under ANOTHER address and joins again: if acknowledged, everybody lists the new address
            dict(pkg=".", entry="VerifC20Raft", bounds="members=3,removal=0,readdr=1", unwind=4000, no_native=True, reach=["joined", "restarted", "end"]),
            # crash points: either side of the join handshake (or a member later on) is killed at any durable write and restarted
            dict(pkg=".", entry="VerifC14Crash", bounds="members=2,creates=1,maxflush=12,crashjoin=1", unwind=4000, no_native=True, reach=["written", "restarted", "end"]),
        ],
        "thorough": [
            dict(pkg=".", entry="VerifC20Raft", bounds="members=3,faults=1", unwind=4000, no_native=True, max_seconds=5400, reach=["joined", "restarted", "end"]),
            dict(pkg=".", entry="VerifC20Raft", bounds="members=3,leadercrash=1,compact=1,rejoin=1", unwind=4000, no_native=True, max_seconds=5400, reach=["joined", "restarted", "end"]),
            dict(pkg=".", entry="VerifC20Raft", bounds="members=3,leadercrash=1,vclock=1", unwind=4000, no_native=True, max_seconds=5400, reach=["joined", "restarted", "end"]),
            dict(pkg=".", entry="VerifC20Raft", bounds="members=3,compact=1,readdr=1", unwind=4000, no_native=True, max_seconds=5400, reach=["joined", "restarted", "end"]),
            dict(pkg=".", entry="VerifC14Crash", bounds="members=2,creates=2,maxflush=20,crashjoin=1", unwind=4000, no_native=True, max_seconds=5400, reach=["written", "restarted", "end"]),
            dict(pkg=".", entry="VerifC20Cluster", bounds="members=3", no_native=True, reach=["joined", "restarted", "end"]),
            dict(pkg=".", entry="VerifC20Cluster", bounds="members=4,nocompact=1", no_native=True, max_seconds=3000, reach=["joined", "restarted", "end"]),
            dict(pkg=".", entry="VerifC20Restart", bounds="lives=3,maxchanges=2", no_native=True, max_seconds=3000, reach=["restarted", "end"]),
            dict(pkg=".", entry="VerifC20Restart", bounds="lives=2,maxchanges=3", no_native=True, reach=["restarted", "end"]),
            dict(pkg=".", entry="VerifC20Install", bounds="maxchanges=3", no_native=True, reach=["installed"]),
        ],
    },
    outside="clusters of more than 3 members (4 in one thorough run of the shared-log harness); in the real-raft harness: more than one message fault, one leader stop and one restart per history, fault positions other than every raft message (loss with/without error, duplication) and 'the leader stops right after it acknowledged a join', goroutine schedules other than the deterministic one between harness-driven ticks, concurrent joins; a member re-joining under a new address is covered for one member after all joins (restart member decision), without faults; in the shared-log harness etcd/raft is replaced by one committed log; crash points: one member (bootstrap or joiner) killed at any durable write of its store during the join handshake or a later catalogue operation (VerifC14Crash, 2 members); crashes of two members, crashes during removals",
    assumptions=COMMON_ASSUME + ["etcd/raft is a harness: the members' zero groups share one committed log; every proposal commits at once and is handed to every live member of the configuration in order (the leader's stored snapshot first when the member's next entry was compacted away); a (re)started member gets its own stored entries re-delivered after its own snapshot; StartNode appends the bootstrap membership entry with the peer Context anndb passed",
                                 "gRPC is an in-memory transport: dialling :<port> reaches the Server listening there, the AddNode stream is served by the real handler and can break before any message; net.Listen, grpc.NewServer and service registration are stubs; Badger is the API-level model with contents shared per Dir"],
    no_native_replay=True,
)


PROPS["C13"] = dict(
    level="model_checking",
    technique="bounded symbolic execution of go/ssa (gosmt) with baton-scheduled goroutines: the real Hnsw Insert/Remove/Search/Get/Len run in 2-3 goroutines; every interleaving at lock acquisitions and sync/atomic operations within the preemption bound is a path, with vector-clock happens-before race detection on every path; operation kinds, ids and levels are path decisions (no solver variables: verdict by exhaustive path enumeration of the symbolic executor)",
    explanation="reduced claim (DESIGN.md section 5 C13): (a) one writer with concurrent readers, as the server uses the index: no panic, no state with every goroutine blocked; insert/remove outcomes and final contents (Get per id, Len) explained by a sequential order; a concurrent search returns only items present initially or inserted concurrently, with true scores, ascending, unique, at most k; at quiescence the C01 search guarantees hold; (b) two concurrent inserts: the same; (c) concurrent insert/remove and remove/remove: explored as well; the four entrypoint hand-over races they expose are listed known findings (natively demonstrated by findings/C13_stress_test.go.txt), anything else is a violation. (d) data races: with verifrt.RaceDetect every interpreted goroutine carries a vector clock, the modelled synchronisation operations transfer clocks, and every heap load/store, map read/update/iteration and slice copy/append is checked on every explored schedule: two accesses to one cell, one a write, not both through sync/atomic, that no happens-before edge orders are a violation (confirmed natively by the Go race detector on the replayed history)",
    runs={
        "quick": [
            dict(pkg="./index", entry="VerifC13", bounds="cfg=0,preempt=2,init=2,ids=3,maxlevel=1,writers=1,kinds=4,race=1", reach=["joined", "end"]),
            dict(pkg="./index", entry="VerifC13", bounds="cfg=0,preempt=2,init=2,ids=3,maxlevel=1,kinds=1,race=1", reach=["joined", "end"]),
            # one writer removing, one reader that is told "not found" and then searches
            dict(pkg="./index", entry="VerifC13", bounds="cfg=0,preempt=2,init=2,ids=2,maxlevel=1,writers=1,minkind=1,kinds=2,minread=2,readkinds=3", reach=["joined", "end"]),
            dict(pkg="./index", entry="VerifC13", bounds="cfg=0,preempt=2,init=2,ids=3,maxlevel=1,kinds=2,race=1", known_no_replay=True, vio_grace=0, reach=["joined", "end"]),
            # one writer replacing an item (Remove + Insert of the same id, as the partition's update does) while a reader searches
            dict(pkg="./index", entry="VerifC13Update", bounds="preempt=2,init=4,mininit=4,maxlevel=0,mink=4,queries=2", reach=["joined", "end"]),
            # two concurrent removes with a third live item (the known remove||remove finding shows only then since fix 56b097d)
            dict(pkg="./index", entry="VerifC13", bounds="cfg=0,preempt=2,init=3,ids=3,maxlevel=0,minkind=1,kinds=2", known_no_replay=True, vio_grace=0, reach=["joined", "end"]),
        ],
        "thorough": [
            dict(pkg="./index", entry="VerifC13", bounds="cfg=0,preempt=3,init=2,ids=3,maxlevel=1,writers=1,kinds=4,race=1", max_seconds=3000, reach=["joined", "end"]),
            dict(pkg="./index", entry="VerifC13", bounds="cfg=4,preempt=2,init=3,ids=4,maxlevel=1,writers=1,kinds=4,race=1", max_seconds=3000, reach=["joined", "end"]),
            dict(pkg="./index", entry="VerifC13", bounds="cfg=2,preempt=2,init=2,ids=3,maxlevel=1,writers=1,kinds=4,race=1", max_seconds=3000, reach=["joined", "end"]),
            dict(pkg="./index", entry="VerifC13", bounds="cfg=0,preempt=1,init=2,ids=3,maxlevel=1,writers=1,kinds=4,threads=3,race=1", max_seconds=3000, reach=["joined", "end"]),
            dict(pkg="./index", entry="VerifC13", bounds="cfg=0,preempt=2,init=2,ids=2,maxlevel=1,writers=1,kinds=2,readkinds=3", max_seconds=3000, reach=["joined", "end"]),
            dict(pkg="./index", entry="VerifC13", bounds="cfg=0,preempt=2,init=2,ids=3,maxlevel=1,kinds=2,race=1", known_no_replay=True, vio_grace=0, max_seconds=3000, reach=["joined", "end"]),
            dict(pkg="./index", entry="VerifC13", bounds="cfg=0,preempt=2,init=3,ids=3,maxlevel=1,minkind=1,kinds=2", known_no_replay=True, vio_grace=0, max_seconds=3000, reach=["joined", "end"]),
            dict(pkg="./index", entry="VerifC13Update", bounds="preempt=2,init=3", max_seconds=3000, reach=["joined", "end"]),
            dict(pkg="./index", entry="VerifC13Update", bounds="preempt=2,init=4,mininit=4,maxlevel=0,mink=4,queries=2", reach=["joined", "end"]),
        ],
    },
    outside="weak-memory effects beyond the happens-before criterion; races between operation pairs/ids/levels outside the bound; races the over-approximated happens-before of the channel and rwmutex models orders; more than 3 goroutines; more than one operation per goroutine; vectors are fixed 1-D points; timing/linearization points of searches beyond 'present initially or inserted concurrently'",
    assumptions=COMMON_ASSUME + ["goroutines are interleaved at lock acquisitions, channel operations, go statements and sync/atomic operations (verifrt.AtomicSwitch); code between two such points runs atomically",
                                 "at most `preempt` preemptions per schedule (a goroutine that blocks or ends does not consume the budget)"],
    replay_attempts=200000,
    race_replay_attempts=400000,
    replay_timeout=45,
    replays_per_signature=1,
    max_native_replays=6,
    gomaxprocs1=True,
)


def _c15(pid, tier, seed):
    import c15
    return c15.run(pid, tier, seed)


PROPS["C15"] = dict(custom=_c15, level="model_checking",
                    technique="symbolic execution of the disassembled AVX/SSE kernels with z3 (asmsmt): len and base addresses as bit-vector variables, lanes as exact-integer terms, per-lane Float32 lemmas; plus bounded symbolic execution (gosmt) of the Go wrappers around the kernels with two concurrent callers and happens-before race detection (kernel = stub with its memory effect)",
                    runs={"quick": [], "thorough": []})

"""Per-property check configuration (bounds are the ones that ran clean)."""

COMMON_ASSUME = [
    "gosmt (our Go-SSA symbolic executor, forked from x/tools/go/ssa/interp) and its memory/thread model are trusted; mitigated by native replay of every counterexample",
    "z3 4.8.12 verdicts are trusted (unsat = holds on that path for all values)",
    "package initialisers are executed only for the repo's packages and a short allow-list (io, bytes, encoding/binary, context, encoding/hex, satori/go.uuid, etcd raft/raftpb); cpuid is not initialised, so space.* dispatches to the portable kernels",
]

PROPS = {}

PROPS["C19"] = dict(
    level="model_checking",
    technique="bounded symbolic execution of go/ssa (gosmt) + SMT (z3), native replay of counterexamples",
    explanation="every operation sequence up to the bound is a path decision; priorities are solver variables, each assertion is discharged for all priority values on its path",
    runs={
        "quick": [dict(pkg="./utils", entry="VerifC19", bounds="ops=5", reach=["reversed", "end"])],
        "thorough": [dict(pkg="./utils", entry="VerifC19", bounds="ops=7", reach=["reversed", "end"])],
    },
    outside="sequences longer than the bound; more than one Reverse per history; NaN priorities (Push accepts them; not in 'non-negative priorities')",
    assumptions=COMMON_ASSUME + ["priorities are finite, non-negative, non-NaN (modelled as integer-valued reals in [0,2^20]; only comparisons are applied to them)"],
)

PROPS["C10"] = dict(
    level="model_checking",
    technique="bounded symbolic execution of go/ssa (gosmt) + SMT: 128-bit id and partition count as bit-vector variables; z3 5.1 and cvc5 (bv-as-int) must both answer unsat",
    explanation="UuidMod/getPartitionForId/groupBatchItemsByPartition/Insert/Update/Remove/Batch* executed symbolically; owner compared with the reference ((lo mod n)+(hi mod n)) mod n for all ids",
    runs={
        "quick": [
            dict(pkg="./utils", entry="VerifC10Mod", bounds="maxn=1024", solver="z3-new", workers=1, timeout_ms=60000, reach=["mod-done"]),
            dict(pkg="./utils", entry="VerifC10Mod", bounds="maxn=1024", solver="cvc5-int", workers=1, timeout_ms=60000, reach=["mod-done"]),
            dict(pkg="./storage", entry="VerifC10Route", bounds="maxp=4", solver="z3-new", reach=["routed"]),
            dict(pkg="./storage", entry="VerifC10Group", bounds="maxp=4", solver="z3-new", workers=4, reach=["grouped"]),
        ],
        "thorough": [
            dict(pkg="./utils", entry="VerifC10Mod", bounds="maxn=1024", solver="z3-new", workers=1, timeout_ms=120000, reach=["mod-done"]),
            dict(pkg="./utils", entry="VerifC10Mod", bounds="maxn=1024", solver="cvc5-int", workers=1, timeout_ms=120000, reach=["mod-done"]),
            dict(pkg="./storage", entry="VerifC10Route", bounds="maxp=7", solver="z3-new", timeout_ms=60000, reach=["routed"]),
            dict(pkg="./storage", entry="VerifC10Group", bounds="maxp=5", solver="z3-new", timeout_ms=60000, reach=["grouped"]),
        ],
    },
    outside="partition counts above 1024 (function) / above the stated maxp for the API paths (each partition count is a separate path with the id fully symbolic); n = 0 (division by zero) belongs to C12",
    assumptions=COMMON_ASSUME + ["z3 4.8.12 does not decide the 64-bit bvurem queries in 60 s; z3 5.1.0 (z3-new) and cvc5 --solve-bv-as-int=sum are used and must agree",
                                 "remote replicas are harness implementations of pb.DataManagerClient (a Go interface) keyed by node id; the local raft group is absent (a locally hosted owner returns RaftNotLoadedOnNodeErr), which is enough to observe which partition was consulted"],
)

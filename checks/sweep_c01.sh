#!/bin/sh
# exploratory sweep (not a registered check): C01 harness over all configurations
for cfg in 0 1 2 3 4 5 6; do
  /verif/bin/gosmt run -dir /repo -pkg ./index -overlay /verif/harness -entry VerifC01 -workers ${W:-8} -bounds ops=${OPS:-5},cfg=$cfg,maxlevel=${ML:-1},maporder=${MO:-0} -max-seconds ${MAXS:-1500} -out /tmp/sweep-c01-$cfg.json 2>&1 | grep -v '^goroutine\|^main\.\|^\s/\|^panic\|^\s*$' | cut -c1-400 | head -12
  python3 -c "
import json
d=json.load(open('/tmp/sweep-c01-$cfg.json'))
print('cfg $cfg', d['violation_counts'])
for v in (d['violations'] or [])[:2]:
    print(v['label'], v.get('tags'), [ (i['name'],i.get('conc') or i.get('val')) for i in v['inputs']])
"
done

#!/usr/bin/env python3
"""C15: AVX/SSE distance kernels vs the portable kernels (asmsmt).

Every run
 1. builds the test binary of index/space from /repo's working tree and
    disassembles the six kernel symbols (objdump, intel syntax);
 2. executes each kernel symbolically (z3): len is a 64-bit solver variable in
    [1, L], the two base addresses are symbolic, general registers are 64-bit
    bit-vector terms, flags are terms, vector lanes are exact-integer terms or
    the mask/sign-bit idioms the compilers emit; conditional jumps fork under
    feasibility checks, so every path fixes the trip counts of the unrolled
    loops;
 3. discharges, per path: (O1) every load lies inside [a,a+4len) or
    [b,b+4len) and every store hits a result cell; (O2) every instruction
    with an alignment requirement is aligned for every 4-byte aligned base;
    (O3) for len <= N the stored results equal the portable formulas for all
    lane values in the exact-integer domain; plus (O4) per-lane floating-point
    lemmas on the one place where the kernels' arithmetic differs from the
    portable code (sqrt(x*x) vs |x|, sqrt(na*nb) vs sqrt(na)*sqrt(nb));
 4. replays counterexamples natively (vectors placed at the required
    alignment / magnitudes) in a child process.
"""
import hashlib
import json
import os
import re
import shutil
import subprocess
import sys
import tempfile
import time

VERIF = os.path.dirname(os.path.dirname(os.path.abspath(__file__)))
REPO = os.environ.get("VERIF_REPO", "/repo")
GOENV = dict(os.environ, GOFLAGS="-mod=mod", GOPROXY="off", GOSUMDB="off", GOTOOLCHAIN="local")

sys.path.insert(0, "/opt/veriftools/pyvenv/lib/python3.11/site-packages")
try:
    import z3
except ImportError:  # pragma: no cover
    for p in subprocess.run(["python3-vt", "-c", "import sys; print('\\n'.join(sys.path))"], stdout=subprocess.PIPE, text=True).stdout.split():
        if p not in sys.path:
            sys.path.append(p)
    import z3

KERNELS = [(impl, k) for impl in ("avx", "sse") for k in ("_euclidean_distance_squared", "_manhattan_distance", "_cosine_similarity_dot_norm")]


class Inconclusive(Exception):
    pass


def log(*a):
    print(*a, file=sys.stderr, flush=True)


# ------------------------------------------------------------------ disassembly

def build_and_disassemble(scratch):
    binp = os.path.join(scratch, "space.test")
    p = subprocess.run(["go", "test", "-c", "-o", binp, "./index/space"], cwd=REPO, env=GOENV, stdout=subprocess.PIPE, stderr=subprocess.STDOUT, text=True)
    if p.returncode != 0 or not os.path.exists(binp):
        raise Inconclusive("test binary of index/space did not build: " + p.stdout[-500:])
    out = {}
    for impl, k in KERNELS:
        sym = "github.com/marekgalovic/anndb/simd/%s.%s.abi0" % (impl, k)
        d = subprocess.run(["objdump", "-d", "-M", "intel", "--no-show-raw-insn", "--disassemble=" + sym, binp], stdout=subprocess.PIPE, text=True).stdout
        insns = []
        for line in d.splitlines():
            m = re.match(r"^\s*([0-9a-f]+):\s+(\S+)\s*(.*)$", line)
            if not m:
                continue
            addr, mn, ops = int(m.group(1), 16), m.group(2), m.group(3)
            ops = ops.split("#")[0].strip()
            ops = re.sub(r"\s*<[^>]*>", "", ops)
            insns.append((addr, mn, ops))
        if not insns:
            raise Inconclusive("no disassembly for " + sym)
        out[(impl, k)] = insns
    return binp, out


def read_rodata(binp, addr, n):
    d = subprocess.run(["objdump", "-s", "--start-address=0x%x" % addr, "--stop-address=0x%x" % (addr + n), binp], stdout=subprocess.PIPE, text=True).stdout
    data = b""
    for line in d.splitlines():
        m = re.match(r"^\s*([0-9a-f]+)\s+((?:[0-9a-f]+\s)+)", line)
        if m:
            data += bytes.fromhex("".join(m.group(2).split()))
    return data[:n]


# ------------------------------------------------------------------ lanes

class Num:
    """A float lane whose value is an exact integer: z3 Int term + interval."""
    __slots__ = ("e", "lo", "hi", "sq_of", "exact")

    def __init__(self, e, lo, hi, sq_of=None, exact=True):
        self.e, self.lo, self.hi, self.sq_of = e, lo, hi, sq_of
        # outside |v| < 2^24 float32 arithmetic is no longer exact: the lane keeps its
        # integer term for memory/alignment purposes but is not compared with the reference
        self.exact = exact and not (lo <= -(1 << 24) or hi >= (1 << 24))
        if not self.exact:
            self.lo, self.hi = max(lo, -(1 << 62)), min(hi, 1 << 62)


class Mask:
    __slots__ = ("c",)

    def __init__(self, c):
        self.c = c


class Bits:
    __slots__ = ("v",)

    def __init__(self, v):
        self.v = v


class Sel:  # cond ? x : +0.0
    __slots__ = ("c", "x")

    def __init__(self, c, x):
        self.c, self.x = c, x


def zero_lane():
    return Num(z3.IntVal(0), 0, 0)


def n_add(x, y):
    return Num(x.e + y.e, x.lo + y.lo, x.hi + y.hi, exact=x.exact and y.exact)


def n_sub(x, y):
    return Num(x.e - y.e, x.lo - y.hi, x.hi - y.lo, exact=x.exact and y.exact)


def n_mul(x, y):
    c = [x.lo * y.lo, x.lo * y.hi, x.hi * y.lo, x.hi * y.hi]
    r = Num(x.e * y.e, min(c), max(c), exact=x.exact and y.exact)
    if x is y:
        r.sq_of = x
        r.lo = 0
    return r


def n_neg(x):
    return Num(-x.e, -x.hi, -x.lo, exact=x.exact)


def n_abs(x):
    m = max(abs(x.lo), abs(x.hi))
    return Num(z3.If(x.e < 0, -x.e, x.e), 0, m, exact=x.exact)


def arith(op, x, y):
    if not isinstance(x, Num) or not isinstance(y, Num):
        raise Inconclusive("arithmetic on a non-numeric lane (%s %s %s)" % (type(x).__name__, op, type(y).__name__))
    return {"add": n_add, "sub": n_sub, "mul": n_mul}[op](x, y)


def lane_xor(x, y):
    if isinstance(y, Bits) and y.v == 0x80000000 and isinstance(x, Num):
        return n_neg(x)
    if isinstance(x, Bits) and x.v == 0x80000000 and isinstance(y, Num):
        return n_neg(y)
    raise Inconclusive("xorps of unsupported lane kinds")


def lane_and(x, y):
    if isinstance(x, Mask) and isinstance(y, Num):
        return Sel(x.c, y)
    if isinstance(y, Mask) and isinstance(x, Num):
        return Sel(y.c, x)
    raise Inconclusive("andps of unsupported lane kinds")


def lane_andn(x, y):  # (~x) & y
    if isinstance(x, Mask) and isinstance(y, Num):
        return Sel(z3.Not(x.c), y)
    raise Inconclusive("andnps of unsupported lane kinds")


def lane_or(x, y):
    if isinstance(x, Sel) and isinstance(y, Sel):
        # one of them is selected (complementary conditions are what the compilers emit)
        s = z3.Solver()
        s.add(z3.Not(z3.Xor(x.c, y.c)))
        if s.check() == z3.unsat:
            return Num(z3.If(x.c, x.x.e, y.x.e), min(x.x.lo, y.x.lo), max(x.x.hi, y.x.hi))
    raise Inconclusive("orps of unsupported lane kinds")


# ------------------------------------------------------------------ machine

GPR64 = ["rax", "rbx", "rcx", "rdx", "rsi", "rdi", "rbp", "rsp", "r8", "r9", "r10", "r11", "r12", "r13", "r14", "r15"]
SUB32 = {"eax": "rax", "ebx": "rbx", "ecx": "rcx", "edx": "rdx", "esi": "rsi", "edi": "rdi", "ebp": "rbp"}
SUB32.update({"r%dd" % i: "r%d" % i for i in range(8, 16)})
SUB8 = {"al": "rax", "bl": "rbx", "cl": "rcx", "dl": "rdx", "sil": "rsi", "dil": "rdi"}
SUB8.update({"r%db" % i: "r%d" % i for i in range(8, 16)})
ALIGNED_MEM = {"movaps", "movapd", "vmovaps", "vmovapd", "subps", "mulps", "addps", "andps", "andnps", "orps", "xorps", "sqrtps", "divps", "unpckhpd", "movshdup", "shufps", "haddps"}


class Val:
    """64-bit value: optional pointer tag + bit-vector term (offset for pointers)."""
    __slots__ = ("tag", "e")

    def __init__(self, e, tag=None):
        self.tag, self.e = tag, e


class State:
    def __init__(self):
        self.r = {}
        self.v = {}
        self.flags = None
        self.pc = 0
        self.cons = []
        self.res = {}
        self.steps = 0

    def clone(self):
        s = State()
        s.r = dict(self.r)
        s.v = {k: list(val) for k, val in self.v.items()}
        s.flags = self.flags
        s.pc = self.pc
        s.cons = list(self.cons)
        s.res = dict(self.res)
        s.steps = self.steps
        return s


class Kernel:
    def __init__(self, name, insns, binp, L, vbound, stats):
        self.name, self.insns, self.binp, self.L, self.vbound, self.stats = name, insns, binp, L, vbound, stats
        self.index = {a: i for i, (a, _, _) in enumerate(insns)}
        self.len = z3.BitVec("len", 64)
        self.solver = z3.Solver()
        self.solver.add(z3.UGE(self.len, 1), z3.ULE(self.len, L))
        self.lanevars = {}
        self.violations = []
        self.obligations = 0
        self.paths = []
        self.queries = 0

    # --- solver helpers
    def feasible(self, cons, extra):
        self.solver.push()
        for c in cons:
            self.solver.add(c)
        self.solver.add(extra)
        self.queries += 1
        t0 = time.time()
        r = self.solver.check()
        self.stats["solver_s"] += time.time() - t0
        m = self.solver.model() if r == z3.sat else None
        self.solver.pop()
        if r == z3.unknown:
            raise Inconclusive("solver unknown")
        return r == z3.sat, m

    def concrete(self, st, e):
        e = z3.simplify(e)
        if z3.is_bv_value(e):
            return e.as_long()
        ok, m = self.feasible(st.cons, z3.BoolVal(True))
        if not ok:
            raise Inconclusive("infeasible path reached")
        v = m.eval(e, model_completion=True).as_long()
        other, _ = self.feasible(st.cons, e != z3.BitVecVal(v, e.size()))
        if other:
            return None
        return v

    def lane(self, tag, i):
        k = (tag, i)
        if k not in self.lanevars:
            self.lanevars[k] = z3.Int("%s_%d" % (tag, i))
        return Num(self.lanevars[k], -self.vbound, self.vbound)

    # --- operand parsing
    def read_gpr(self, st, name):
        if name in st.r:
            return st.r[name]
        if name in SUB32:
            v = st.r[SUB32[name]]
            return Val(z3.ZeroExt(32, z3.Extract(31, 0, v.e)))
        if name in SUB8:
            v = st.r[SUB8[name]]
            return Val(z3.ZeroExt(56, z3.Extract(7, 0, v.e)))
        raise Inconclusive("unknown register " + name)

    def write_gpr(self, st, name, val):
        if name in GPR64:
            st.r[name] = val
        elif name in SUB32:
            st.r[SUB32[name]] = Val(z3.ZeroExt(32, z3.Extract(31, 0, val.e)))
        else:
            raise Inconclusive("write to register " + name)

    def parse_mem(self, st, s):
        m = re.match(r"^(?:(\w+) PTR )?\[(.*)\]$", s)
        if not m:
            return None
        size = {"DWORD": 4, "QWORD": 8, "XMMWORD": 16, "YMMWORD": 32, None: 0}[m.group(1)]
        expr = m.group(2).replace("-", "+-")
        tag, e = None, z3.BitVecVal(0, 64)
        for term in expr.split("+"):
            term = term.strip()
            if not term:
                continue
            if term == "rip" or term.startswith("rip"):
                raise Inconclusive("rip-relative memory operand")
            mm = re.match(r"^(\w+)\*(\d+)$", term)
            if mm:
                v = self.read_gpr(st, mm.group(1))
                if v.tag:
                    raise Inconclusive("scaled pointer")
                e = e + v.e * int(mm.group(2))
            elif re.match(r"^-?0x[0-9a-f]+$|^-?\d+$", term):
                e = e + z3.BitVecVal(int(term, 0), 64)
            else:
                v = self.read_gpr(st, term)
                if v.tag:
                    if tag:
                        raise Inconclusive("two pointers in one address")
                    tag = v.tag
                e = e + v.e
        return tag, e, size

    # --- memory
    def load(self, st, addr, mn, mem, nlanes):
        tag, e, size = mem
        nbytes = 4 * nlanes
        if tag == "stack":
            raise Inconclusive("vector load from the stack")
        if tag == "const":
            off = self.concrete(st, e)
            data = read_rodata(self.binp, self.const_base + off, nbytes)
            if (self.const_base + off) % 16 and mn in ALIGNED_MEM:
                self.violations.append(dict(kind="misaligned-constant", kernel=self.name, insn="%x %s" % (addr, mn)))
            return [Bits(int.from_bytes(data[4 * i:4 * i + 4], "little")) for i in range(nlanes)]
        if tag not in ("a", "b"):
            raise Inconclusive("load through an untracked pointer at %x" % addr)
        # O1: inside the vector
        self.obligations += 1
        bad, m = self.feasible(st.cons, z3.Or(e < 0, z3.UGT(e + nbytes, 4 * self.len)))
        off = self.concrete(st, e)
        if bad:
            n = m.eval(self.len, model_completion=True).as_long()
            self.violations.append(dict(kind="out-of-bounds-read", kernel=self.name, insn="%x %s" % (addr, mn), vector=tag,
                                        offset_bytes=m.eval(e, model_completion=True).as_signed_long(), bytes=nbytes, len=n))
            raise StopPath()
        # O2: alignment for every 4-byte aligned base
        if mn in ALIGNED_MEM and nbytes >= 16:
            self.obligations += 1
            # required alignment = operand width (16 for xmm, 32 for ymm); remember a length that reaches the site
            if (addr, mn, tag) not in self.align_sites:
                atlen = self.concrete(st, self.len)
                if atlen is None:
                    okm, mm = self.feasible(st.cons, z3.BoolVal(True))
                    if okm:
                        # some length that reaches this site; a few more lanes so that the loop really runs
                        atlen = mm.eval(self.len, model_completion=True).as_long() + 8
                self.align_sites[(addr, mn, tag)] = (off, nbytes, atlen)
        if off is None or off % 4:
            raise Inconclusive("load offset not unique / not a multiple of 4 at %x" % addr)
        return [self.lane(tag, off // 4 + i) for i in range(nlanes)]

    # --- flags
    def cond(self, st, cc):
        f = st.flags
        if f is None:
            raise Inconclusive("conditional jump without flags")
        kind = f[0]
        if kind == "sub":
            _, x, y = f
            r = x - y
            zf, cf = r == 0, z3.ULT(x, y)
            sf = r < 0
            of = z3.And((x < 0) != (y < 0), (r < 0) != (x < 0))
        elif kind == "res":
            _, r = f
            zf, cf, sf, of = r == 0, z3.BoolVal(False), r < 0, z3.BoolVal(False)
        elif kind == "add":
            _, x, y = f
            r = x + y
            zf, cf, sf = r == 0, z3.ULT(r, x), r < 0
            of = z3.And((x < 0) == (y < 0), (r < 0) != (x < 0))
        else:
            raise Inconclusive("flags kind " + kind)
        table = {"e": zf, "z": zf, "ne": z3.Not(zf), "nz": z3.Not(zf), "ae": z3.Not(cf), "nb": z3.Not(cf), "b": cf, "a": z3.And(z3.Not(cf), z3.Not(zf)),
                 "be": z3.Or(cf, zf), "l": sf != of, "ge": sf == of, "le": z3.Or(zf, sf != of), "g": z3.And(z3.Not(zf), sf == of), "s": sf, "ns": z3.Not(sf)}
        if cc not in table:
            raise Inconclusive("condition code " + cc)
        return table[cc]

    # --- vector helpers
    def vreg(self, st, name):
        n = int(re.sub(r"\D", "", name))
        return st.v.setdefault(n, [zero_lane() for _ in range(8)])

    def set_vreg(self, st, name, lanes, vex):
        n = int(re.sub(r"\D", "", name))
        cur = st.v.setdefault(n, [zero_lane() for _ in range(8)])
        if name.startswith("ymm"):
            st.v[n] = list(lanes[:8])
        else:
            upper = [zero_lane() for _ in range(4)] if vex else cur[4:8]
            st.v[n] = list(lanes[:4]) + upper

    def vsrc(self, st, addr, mn, op, nl):
        mem = self.parse_mem(st, op)
        if mem:
            return self.load(st, addr, mn, mem, nl if mem[2] != 4 else 1) + [zero_lane()] * 8
        return self.vreg(st, op)

    # --- one instruction
    def step(self, st):
        addr, mn, ops = self.insns[st.pc]
        o = [x.strip() for x in re.split(r",(?![^\[]*\])", ops)] if ops else []
        st.pc += 1
        st.steps += 1
        if st.steps > 60 * self.L + 2000:
            raise Inconclusive("unwinding bound exceeded in " + self.name)
        vex = mn.startswith("v")
        base = mn[1:] if vex else mn
        if mn == "ret":
            return "ret"
        if mn == "jmp":
            st.pc = self.index[int(o[0], 16)]
            return None
        if mn.startswith("j"):
            c = self.cond(st, mn[1:])
            t, _ = self.feasible(st.cons, c)
            f, _ = self.feasible(st.cons, z3.Not(c))
            target = self.index[int(o[0], 16)]
            if t and f:
                other = st.clone()
                other.cons.append(z3.Not(c))
                self.work.append(other)
                st.cons.append(c)
                st.pc = target
            elif t:
                st.pc = target
            elif not f:
                raise Inconclusive("both branch sides infeasible")
            return None
        if mn == "mov":
            mem = self.parse_mem(st, o[1])
            if mem:
                tag, e, size = mem
                if tag != "stack":
                    raise Inconclusive("scalar load from a vector at %x" % addr)
                off = self.concrete(st, e)
                arg = {8: Val(self.len), 0x10: Val(z3.BitVecVal(0, 64), "a"), 0x18: Val(z3.BitVecVal(0, 64), "b"),
                       0x20: Val(z3.BitVecVal(0, 64), "res0"), 0x28: Val(z3.BitVecVal(0, 64), "res1")}.get(off)
                if arg is None:
                    raise Inconclusive("unknown stack slot %r" % off)
                self.write_gpr(st, o[0], arg)
            elif re.match(r"^-?(0x)?[0-9a-f]+$", o[1]):
                self.write_gpr(st, o[0], Val(z3.BitVecVal(int(o[1], 0), 64)))
            else:
                self.write_gpr(st, o[0], self.read_gpr(st, o[1]))
            return None
        if mn == "movsxd":
            v = self.read_gpr(st, o[1])
            self.write_gpr(st, o[0], Val(z3.SignExt(32, z3.Extract(31, 0, v.e))))
            return None
        if mn == "lea":
            m = re.match(r"^\[(.*)\]$", o[1])
            if "rip" in o[1]:
                # address of the constant table
                mm = re.search(r"rip\+0x([0-9a-f]+)", o[1])
                nxt = self.insns[st.pc][0]
                self.const_base = nxt + int(mm.group(1), 16)
                self.write_gpr(st, o[0], Val(z3.BitVecVal(0, 64), "const"))
                return None
            tag, e, _ = self.parse_mem(st, "[" + m.group(1) + "]")
            self.write_gpr(st, o[0], Val(e, tag))
            return None
        if mn in ("add", "sub", "and", "or", "xor", "cmp", "test", "shr", "shl", "neg", "not", "inc", "dec"):
            w8 = o[0] in SUB8
            x = self.read_gpr(st, o[0])
            y = None
            if len(o) > 1:
                y = Val(z3.BitVecVal(int(o[1], 0), 64)) if re.match(r"^-?(0x)?[0-9a-f]+$", o[1]) else self.read_gpr(st, o[1])
            is32 = o[0] in SUB32
            if mn in ("add", "sub") and (x.tag or (y and y.tag)):
                raise Inconclusive("pointer arithmetic outside address operands")

            def norm(e):
                if is32:
                    return z3.ZeroExt(32, z3.Extract(31, 0, e))
                return e
            if mn == "cmp":
                st.flags = ("sub", x.e, y.e)
            elif mn == "test":
                r = x.e & y.e
                st.flags = ("res", z3.SignExt(56, z3.Extract(7, 0, r)) if w8 else r)
            elif mn == "add":
                st.flags = ("add", x.e, y.e)
                self.write_gpr(st, o[0], Val(norm(x.e + y.e)))
            elif mn == "sub":
                st.flags = ("sub", x.e, y.e)
                self.write_gpr(st, o[0], Val(norm(x.e - y.e)))
            elif mn in ("and", "or", "xor"):
                r = {"and": x.e & y.e, "or": x.e | y.e, "xor": x.e ^ y.e}[mn]
                if mn == "xor" and o[0] == o[1]:
                    r = z3.BitVecVal(0, 64)
                r = norm(r)
                st.flags = ("res", z3.SignExt(32, z3.Extract(31, 0, r)) if is32 else r)
                self.write_gpr(st, o[0], Val(r))
            elif mn == "shr":
                r = norm(z3.LShR(x.e, y.e))
                st.flags = ("res", r)
                self.write_gpr(st, o[0], Val(r))
            elif mn == "shl":
                r = norm(x.e << y.e)
                st.flags = ("res", r)
                self.write_gpr(st, o[0], Val(r))
            elif mn == "neg":
                st.flags = ("sub", z3.BitVecVal(0, 64), x.e)
                self.write_gpr(st, o[0], Val(norm(-x.e)))
            elif mn == "not":
                self.write_gpr(st, o[0], Val(norm(~x.e)))
            elif mn == "inc":
                r = norm(x.e + 1)
                st.flags = ("res", r)
                self.write_gpr(st, o[0], Val(r))
            elif mn == "dec":
                r = norm(x.e - 1)
                st.flags = ("res", r)
                self.write_gpr(st, o[0], Val(r))
            return None
        # ---------------- vector instructions
        nl = 8 if any(x.startswith("ymm") for x in o) else 4
        if base in ("zeroupper",):
            return None
        if base in ("movaps", "movups"):
            mem0 = self.parse_mem(st, o[0])
            if mem0:
                raise Inconclusive("vector store")
            self.set_vreg(st, o[0], self.vsrc(st, addr, mn, o[1], nl)[:nl], vex or self.parse_mem(st, o[1]) is not None and False)
            return None
        if base == "movss":
            mem0 = self.parse_mem(st, o[0])
            if mem0:  # store
                tag, e, size = mem0
                if tag not in ("res0", "res1") or self.concrete(st, e) != 0:
                    self.violations.append(dict(kind="stray-store", kernel=self.name, insn="%x %s" % (addr, mn)))
                    raise StopPath()
                st.res[tag] = self.vreg(st, o[1])[0]
                return None
            mem1 = self.parse_mem(st, o[-1])
            if mem1:
                lane = self.load(st, addr, mn, mem1, 1)[0]
                self.set_vreg(st, o[0], [lane, zero_lane(), zero_lane(), zero_lane()], True)
            elif len(o) == 3:
                s1, s2 = self.vreg(st, o[1]), self.vreg(st, o[2])
                self.set_vreg(st, o[0], [s2[0]] + s1[1:4], True)
            else:
                d, s = self.vreg(st, o[0]), self.vreg(st, o[1])
                self.set_vreg(st, o[0], [s[0]] + d[1:4], False)
            return None
        if base in ("addps", "subps", "mulps", "addss", "subss", "mulss"):
            op = base[:3]
            scalar = base.endswith("ss")
            if len(o) == 3:
                s1, s2 = self.vreg(st, o[1]), self.vsrc(st, addr, mn, o[2], 1 if scalar else nl)
            else:
                s1, s2 = self.vreg(st, o[0]), self.vsrc(st, addr, mn, o[1], 1 if scalar else nl)
            if scalar:
                self.set_vreg(st, o[0], [arith(op, s1[0], s2[0])] + s1[1:4], vex)
            else:
                self.set_vreg(st, o[0], [arith(op, s1[i], s2[i]) for i in range(nl)], vex)
            return None
        if base == "sqrtps":
            s = self.vsrc(st, addr, mn, o[-1], nl)
            out = []
            for i in range(nl):
                if not isinstance(s[i], Num) or s[i].sq_of is None:
                    if isinstance(s[i], Num) and s[i].lo == 0 and s[i].hi == 0:
                        out.append(zero_lane())
                        continue
                    raise Inconclusive("sqrt of a lane that is not a square")
                out.append(n_abs(s[i].sq_of))
            self.set_vreg(st, o[0], out, vex)
            return None
        if base == "xorps":
            if len(o) == 3:
                a1, a2 = o[1], o[2]
            else:
                a1, a2 = o[0], o[1]
            if a1 == a2:
                self.set_vreg(st, o[0], [zero_lane() for _ in range(nl)], vex)
                return None
            s1, s2 = self.vreg(st, a1), self.vsrc(st, addr, mn, a2, nl)
            out = []
            for i in range(4):
                try:
                    out.append(lane_xor(s1[i], s2[i]))
                except Inconclusive:
                    if i == 0:
                        raise
                    out.append(s1[i])
            self.set_vreg(st, o[0], out, vex)
            return None
        if base in ("andps", "andnps", "orps"):
            s1, s2 = self.vreg(st, o[0]), self.vsrc(st, addr, mn, o[1], 4)
            f = {"andps": lane_and, "andnps": lane_andn, "orps": lane_or}[base]
            out = []
            for i in range(4):
                try:
                    out.append(f(s1[i], s2[i]))
                except Inconclusive:
                    if i == 0:
                        raise
                    out.append(s1[i])
            self.set_vreg(st, o[0], out, vex)
            return None
        if base == "cmpltss":
            if len(o) == 3:
                s1, s2 = self.vreg(st, o[1]), self.vreg(st, o[2])
            else:
                s1, s2 = self.vreg(st, o[0]), self.vreg(st, o[1])
            if not isinstance(s1[0], Num) or not isinstance(s2[0], Num):
                raise Inconclusive("cmpltss on non-numeric lanes")
            self.set_vreg(st, o[0], [Mask(s1[0].e < s2[0].e)] + s1[1:4], vex)
            return None
        if base == "blendvps":
            s1, s2, m = self.vreg(st, o[1]), self.vreg(st, o[2]), self.vreg(st, o[3])
            out = []
            for i in range(4):
                if isinstance(m[i], Mask) and isinstance(s1[i], Num) and isinstance(s2[i], Num):
                    out.append(Num(z3.If(m[i].c, s2[i].e, s1[i].e), min(s1[i].lo, s2[i].lo), max(s1[i].hi, s2[i].hi)))
                elif i == 0:
                    raise Inconclusive("blendvps on unsupported lanes")
                else:
                    out.append(s1[i])
            self.set_vreg(st, o[0], out, True)
            return None
        if base == "haddps":
            if len(o) == 3:
                s1, s2 = self.vreg(st, o[1]), self.vsrc(st, addr, mn, o[2], nl)
            else:
                s1, s2 = self.vreg(st, o[0]), self.vsrc(st, addr, mn, o[1], nl)
            out = []
            for h in range(nl // 4):
                b = 4 * h
                out += [arith("add", s1[b], s1[b + 1]), arith("add", s1[b + 2], s1[b + 3]), arith("add", s2[b], s2[b + 1]), arith("add", s2[b + 2], s2[b + 3])]
            self.set_vreg(st, o[0], out, vex)
            return None
        if base == "extractf128":
            s = self.vreg(st, o[1])
            k = int(o[2], 0)
            self.set_vreg(st, o[0], s[4 * k:4 * k + 4], True)
            return None
        if base == "movshdup":
            s = self.vsrc(st, addr, mn, o[1], 4)
            self.set_vreg(st, o[0], [s[1], s[1], s[3], s[3]], vex)
            return None
        if base == "unpckhpd":
            d, s = self.vreg(st, o[0]), self.vsrc(st, addr, mn, o[1], 4)
            self.set_vreg(st, o[0], [d[2], d[3], s[2], s[3]], vex)
            return None
        if base == "movhlps":
            d, s = self.vreg(st, o[0]), self.vreg(st, o[1])
            self.set_vreg(st, o[0], [s[2], s[3], d[2], d[3]], vex)
            return None
        if base == "shufps":
            d, s = self.vreg(st, o[0]), self.vsrc(st, addr, mn, o[1], 4)
            imm = int(o[2], 0)
            self.set_vreg(st, o[0], [d[imm & 3], d[(imm >> 2) & 3], s[(imm >> 4) & 3], s[(imm >> 6) & 3]], vex)
            return None
        if base == "insertps":
            d = list(self.vreg(st, o[0])[:4])
            imm = int(o[2], 0)
            mem = self.parse_mem(st, o[1])
            if mem:
                src = self.load(st, addr, mn, mem, 1)[0]
            else:
                src = self.vreg(st, o[1])[(imm >> 6) & 3]
            d[(imm >> 4) & 3] = src
            for i in range(4):
                if imm & (1 << i):
                    d[i] = zero_lane()
            self.set_vreg(st, o[0], d, vex)
            return None
        raise Inconclusive("unsupported instruction %s %s at %x in %s" % (mn, ops, addr, self.name))

    # --- run
    def run(self, check_values, N3):
        st = State()
        st.r["rsp"] = Val(z3.BitVecVal(0, 64), "stack")
        self.align_sites = {}
        self.work = [st]
        self.const_base = 0
        results = []
        while self.work:
            st = self.work.pop()
            try:
                while True:
                    if self.step(st) == "ret":
                        break
            except StopPath:
                continue
            n = self.concrete(st, self.len)
            self.paths.append(dict(len=n, steps=st.steps))
            self.stats["instructions"] += st.steps
            for need in (("res0",) if "cosine" not in self.name else ("res0", "res1")):
                self.obligations += 1
                if need not in st.res:
                    self.violations.append(dict(kind="result-not-written", kernel=self.name, len=n))
            if check_values and n is not None and n <= N3:
                results.append((n, dict(st.res)))
        # O2: alignment of every aligned-memory instruction that was executed
        for (addr, mn, tag), (off, nbytes, atlen) in sorted(self.align_sites.items()):
            basev = z3.BitVec("base", 64)
            s = z3.Solver()
            s.add(basev % 4 == 0, (basev + (off or 0)) % nbytes != 0)
            self.queries += 1
            if s.check() == z3.sat:
                self.violations.append(dict(kind="misaligned-access", kernel=self.name, insn="+0x%x %s" % (addr - self.insns[0][0], mn), vector=tag,
                                            required_alignment=nbytes, len=atlen or 8,
                                            base_mod_16=s.model()[basev].as_long() % 16, base_mod=s.model()[basev].as_long() % nbytes))
        return results


class StopPath(Exception):
    pass


# ------------------------------------------------------------------ reference formulas (portable kernels)

def reference(kname, n, K):
    a = [K.lane("a", i).e for i in range(n)]
    b = [K.lane("b", i).e for i in range(n)]
    if "euclidean" in kname:
        return {"res0": sum(((a[i] - b[i]) * (a[i] - b[i]) for i in range(n)), z3.IntVal(0))}
    if "manhattan" in kname:
        return {"res0": sum((z3.If(a[i] - b[i] < 0, b[i] - a[i], a[i] - b[i]) for i in range(n)), z3.IntVal(0))}
    dot = sum((a[i] * b[i] for i in range(n)), z3.IntVal(0))
    na = sum((a[i] * a[i] for i in range(n)), z3.IntVal(0))
    nb = sum((b[i] * b[i] for i in range(n)), z3.IntVal(0))
    return {"res0": dot, "res1": na * nb}


def fp_lemmas(stats):
    """Per-lane floating point lemmas (Float32, RNE) where the kernels' arithmetic differs from the portable code."""
    out = []
    F = z3.Float32()
    rm = z3.RNE()
    d = z3.FP("d", F)
    s = z3.Solver()
    s.set("timeout", 120000)
    k = z3.fpSqrt(rm, z3.fpMul(rm, d, d))
    p = z3.fpAbs(d)
    s.add(z3.Not(z3.fpIsNaN(d)), z3.Not(z3.fpIsInf(d)))
    s.add(z3.Or(z3.fpIsInf(k) != z3.fpIsInf(p), z3.fpIsZero(k) != z3.fpIsZero(p)))
    t0 = time.time()
    r = s.check()
    stats["solver_s"] += time.time() - t0
    if r == z3.sat:
        m = s.model()
        val = float(eval(str(m.eval(d)).replace("*(2**", "*(2.0**")) if False else 0)
        out.append(dict(lemma="manhattan-lane: sqrt((a-b)^2) has the value class (inf/zero) of |a-b|", verdict="violated", d=str(m.eval(d))))
    elif r == z3.unsat:
        out.append(dict(lemma="manhattan-lane", verdict="holds"))
    else:
        out.append(dict(lemma="manhattan-lane", verdict="unknown"))
    na, nb = z3.FP("na", F), z3.FP("nb", F)
    s = z3.Solver()
    s.set("timeout", 120000)
    kk = z3.fpSqrt(rm, z3.fpMul(rm, na, nb))
    pp = z3.fpMul(rm, z3.fpSqrt(rm, na), z3.fpSqrt(rm, nb))
    for x in (na, nb):
        s.add(z3.Not(z3.fpIsNaN(x)), z3.Not(z3.fpIsInf(x)), z3.fpGT(x, z3.FPVal(0.0, F)))
    s.add(z3.Or(z3.fpIsInf(kk) != z3.fpIsInf(pp), z3.fpIsZero(kk) != z3.fpIsZero(pp)))
    t0 = time.time()
    r = s.check()
    stats["solver_s"] += time.time() - t0
    if r == z3.sat:
        m = s.model()
        out.append(dict(lemma="cosine-norms: sqrt(na*nb) has the value class (inf/zero) of sqrt(na)*sqrt(nb)", verdict="violated", na=str(m.eval(na)), nb=str(m.eval(nb))))
    elif r == z3.unsat:
        out.append(dict(lemma="cosine-norms", verdict="holds"))
    else:
        out.append(dict(lemma="cosine-norms", verdict="unknown"))
    return out


# ------------------------------------------------------------------ native replay

REPLAY_GO = r'''
package space

import (
	"encoding/json"
	"fmt"
	"math"
	"os"
	"syscall"
	"testing"
	"unsafe"

	"github.com/marekgalovic/anndb/simd/avx"
	"github.com/marekgalovic/anndb/simd/sse"
)

func verifAligned(n int, mod uintptr, align uintptr) []float32 {
	buf := make([]float32, n+16)
	for k := 0; k < 16; k++ {
		if uintptr(unsafe.Pointer(&buf[k]))%%align == mod {
			return buf[k : k+n : k+n]
		}
	}
	return buf[:n]
}

func TestVerifC15Replay(t *testing.T) {
	kind := os.Getenv("VERIF_C15_KIND")
	impl := os.Getenv("VERIF_C15_IMPL")
	switch kind {
	case "misaligned":
		a, b := verifAligned(%(n)d, %(mod)d, %(align)d), verifAligned(%(n)d, %(mod)d, %(align)d)
		for i := range a {
			a[i], b[i] = float32(i), 1
		}
		var r float32
		if impl == "sse" {
			r = sse.%(fn)s(a, b)
		} else {
			r = avx.%(fn)s(a, b)
		}
		fmt.Println("VERIF-C15 completed", r)
	case "oob":
		// vectors end exactly at a page boundary followed by an inaccessible page
		n := %(n)d
		mk := func() []float32 {
			mem, err := syscall.Mmap(-1, 0, 2*4096, syscall.PROT_READ|syscall.PROT_WRITE, syscall.MAP_ANON|syscall.MAP_PRIVATE)
			if err != nil {
				panic(err)
			}
			if err := syscall.Mprotect(mem[4096:], syscall.PROT_NONE); err != nil {
				panic(err)
			}
			start := 4096 - 4*n
			return (*[1 << 20]float32)(unsafe.Pointer(&mem[start]))[:n:n]
		}
		a, b := mk(), mk()
		for i := range a {
			a[i], b[i] = float32(i), 1
		}
		var r float32
		if impl == "sse" {
			r = sse.%(fn)s(a, b)
		} else {
			r = avx.%(fn)s(a, b)
		}
		fmt.Println("VERIF-C15 completed", r)
	case "value":
		var spec struct {
			A, B []float32
		}
		if err := json.Unmarshal([]byte(os.Getenv("VERIF_C15_VECTORS")), &spec); err != nil {
			panic(err)
		}
		a, b := verifAligned(len(spec.A), 0, 16), verifAligned(len(spec.B), 0, 16)
		copy(a, spec.A)
		copy(b, spec.B)
		var k, p float32
		switch "%(fn)s" {
		case "EuclideanDistance":
			p = nativeSpaceImpl{}.EuclideanDistance(a, b)
			if impl == "sse" {
				k = sse.EuclideanDistance(a, b)
			} else {
				k = avx.EuclideanDistance(a, b)
			}
		case "ManhattanDistance":
			p = nativeSpaceImpl{}.ManhattanDistance(a, b)
			if impl == "sse" {
				k = sse.ManhattanDistance(a, b)
			} else {
				k = avx.ManhattanDistance(a, b)
			}
		default:
			p = nativeSpaceImpl{}.CosineDistance(a, b)
			if impl == "sse" {
				k = sse.CosineDistance(a, b)
			} else {
				k = avx.CosineDistance(a, b)
			}
		}
		fmt.Println("VERIF-C15 values", k, p, math.Abs(float64(k-p)) > 1e-4, false)
	case "manhattan-overflow":
		a, b := []float32{3e19, 1, 2, 3, 4, 5, 6, 7}, []float32{0, 0, 0, 0, 0, 0, 0, 0}
		var k float32
		if impl == "sse" {
			if uintptr(unsafe.Pointer(&a[0]))%%16 != 0 || uintptr(unsafe.Pointer(&b[0]))%%16 != 0 {
				a, b = append(verifAligned(8, 0, 16)[:0], a...), append(verifAligned(8, 0, 16)[:0], b...)
			}
			k = sse.ManhattanDistance(a, b)
		} else {
			k = avx.ManhattanDistance(a, b)
		}
		p := nativeSpaceImpl{}.ManhattanDistance(a, b)
		fmt.Println("VERIF-C15 values", k, p, math.IsInf(float64(k), 0), math.IsInf(float64(p), 0))
	case "cosine-overflow":
		a, b := []float32{1e10, 1e10, 0, 0, 0, 0, 0, 0}, []float32{1e10, 0, 0, 0, 0, 0, 0, 0}
		k := avx.CosineDistance(a, b)
		p := nativeSpaceImpl{}.CosineDistance(a, b)
		fmt.Println("VERIF-C15 values", k, p, math.IsInf(float64(k), 0) || math.IsNaN(float64(k)) || math.Abs(float64(k-p)) > 0.1, false)
	}
}
'''


def native(scratch, kind, impl, fn="EuclideanDistance", n=8, vectors=None, mod=4, align=16):
    tpath = os.path.join(scratch, "zz_verif_c15_%s_%s_test.go" % (kind.replace("-", "_"), impl))
    with open(tpath, "w") as f:
        f.write("//go:build verif\n" + REPLAY_GO % dict(fn=fn, n=n, mod=mod, align=align))
    ov = os.path.join(scratch, "ov-%s-%s.json" % (kind, impl))
    with open(ov, "w") as f:
        json.dump({"Replace": {os.path.join(REPO, "index/space/zz_verif_c15_test.go"): tpath}}, f)
    env = dict(GOENV, VERIF_C15_KIND=kind, VERIF_C15_IMPL=impl, VERIF_C15_VECTORS=json.dumps(vectors or {}))
    p = subprocess.run(["go", "test", "-tags", "verif", "-vet=off", "-count=1", "-v", "-overlay", ov, "-run", "^TestVerifC15Replay$", "./index/space"],
                       cwd=REPO, env=env, stdout=subprocess.PIPE, stderr=subprocess.STDOUT, text=True)
    for line in p.stdout.splitlines():
        if line.startswith("VERIF-C15"):
            return line
    for line in p.stdout.splitlines():
        if "SIGSEGV" in line or "signal" in line or "fatal error" in line or "unexpected fault" in line:
            return "CRASH " + line.strip()
    return "NO-RESULT " + p.stdout[-200:].replace("\n", " | ")


# ------------------------------------------------------------------ main

def wrapper_phase(scratch, tier):
    """The Go wrappers around the kernels (simd/avx, simd/sse *.go), under gosmt: two goroutines
    call one wrapper at the same time, happens-before race detection on; the assembly kernel is
    replaced by its memory effect (reads both vectors, writes through its result pointers).
    Returns (evidence dict, list of (signature, replay path, native result, reproduced))."""
    import check
    run = dict(pkg="./index/space", entry="VerifC15Wrappers", bounds="preempt=%d" % (2 if tier == "quick" else 3), unwind=64)
    summ, rc, err = check.run_gosmt(run, tier, scratch, 900)
    ev = {"entry": "space.VerifC15Wrappers", "bounds": run["bounds"], "functions": ["simd/avx.{Euclidean,Manhattan,Cosine}Distance", "simd/sse.{Euclidean,Manhattan,Cosine}Distance"],
          "stub": "assembly kernels replaced by their memory effect (read a[0], b[0]; write every result pointer)"}
    if summ is None:
        raise Inconclusive("wrapper harness did not run: %s" % (err or rc))
    ev.update(paths=summ.get("paths"), status=summ.get("status"), exhaustive=summ.get("exhaustive"), wall_s=summ.get("wall_s"))
    if not summ.get("exhaustive") or (summ.get("status") or {}).get("engine") or (summ.get("status") or {}).get("unwind"):
        raise Inconclusive("wrapper harness: exploration not exhaustive (%s)" % summ.get("stop_reason"))
    out = []
    seen = set()
    items = []
    for v in summ.get("violations") or []:
        sig = "wrapper:" + check.signature(v)
        if sig in seen:
            continue
        seen.add(sig)
        path = check.write_replay("C15", run, v)
        items.append((sig, v, path))
    by_kind = {}
    for sig, v, path in items:
        by_kind.setdefault(v["kind"] == "race", []).append((run["entry"], path))
    results = {}
    for is_race, lst in by_kind.items():
        res, _ = check.native_replay(run["pkg"], lst, scratch, attempts=400000 if is_race else 200000, timeout=120, gomaxprocs1=True, race=is_race)
        results.update(res)
    # the Go race detector does not see what the assembly kernel writes: a race on a result
    # slot shows natively as one caller getting the other's value (the harness' own assertion)
    again = [(run["entry"], path) for sig, v, path in items if v["kind"] == "race" and not results.get(path, "").startswith("RACE")]
    if again:
        res, _ = check.native_replay(run["pkg"], again, scratch, attempts=2000000, timeout=300, gomaxprocs1=True, race=False)
        for k, r in res.items():
            results[k] = (results.get(k, "") + " | without -race: " + r).strip(" |")
    for sig, v, path in items:
        r = results.get(path, "")
        ok = r.startswith("RACE") or "FAILED" in r or r.startswith("PANIC") or r.startswith("CRASH")
        out.append((sig, path, r, ok))
    return ev, out


def run(pid, tier, seed):
    t0 = time.time()
    scratch = tempfile.mkdtemp(prefix="verif-C15-")
    L = 64 if tier == "quick" else 512
    N3 = 16 if tier == "quick" else 32
    stats = dict(solver_s=0.0, instructions=0)
    inconclusive, violations, samples, kernels_ev = [], [], [], {}
    obligations = queries = paths = 0
    try:
        binp, dis = build_and_disassemble(scratch)
        for (impl, k), insns in dis.items():
            name = impl + "." + k
            vb = 8 if "cosine" in k else 64
            n3 = N3
            K = Kernel(name, insns, binp, L, vb, stats)
            try:
                results = K.run(True, n3)
            except Inconclusive as e:
                inconclusive.append("%s: %s" % (name, e))
                continue
            # O3: value equality in the exact-integer domain
            proved = 0
            for n, res in results:
                ref = reference(k, n, K)
                s = z3.Solver()
                for (tag, i), v in K.lanevars.items():
                    s.add(v >= -vb, v <= vb)
                diffs = []
                ok = True
                for cell, expr in ref.items():
                    lane = res.get(cell)
                    if not isinstance(lane, Num) or not lane.exact:
                        ok = False
                        break
                    diffs.append(lane.e != expr)
                if not ok:
                    inconclusive.append("%s: result lane is not an exact numeric lane for len %d" % (name, n))
                    continue
                s.add(z3.Or(*diffs))
                K.obligations += 1
                K.queries += 1
                ts = time.time()
                r = s.check()
                stats["solver_s"] += time.time() - ts
                if r == z3.unsat:
                    proved += 1
                elif r == z3.sat:
                    m = s.model()
                    K.violations.append(dict(kind="value-mismatch", kernel=name, len=n,
                                             a=[m.eval(K.lane("a", i).e, model_completion=True).as_long() for i in range(n)],
                                             b=[m.eval(K.lane("b", i).e, model_completion=True).as_long() for i in range(n)]))
                else:
                    inconclusive.append("%s: solver unknown on value equality for len %d" % (name, n))
            lens = sorted(set(p["len"] for p in K.paths if p["len"] is not None))
            missing = [n for n in range(1, L + 1) if n not in lens]
            if missing:
                inconclusive.append("%s: no completed path for lengths %s" % (name, missing[:8]))
            kernels_ev[name] = dict(instructions=len(insns), sha256_16=hashlib.sha256(repr(insns).encode()).hexdigest()[:16], paths=len(K.paths),
                                    lengths_covered=len(lens), value_equalities_proved=proved, obligations=K.obligations, queries=K.queries)
            obligations += K.obligations
            queries += K.queries
            paths += len(K.paths)
            violations += K.violations
            if len(samples) < 4 and K.paths:
                samples.append(dict(kernel=name, path=K.paths[len(K.paths) // 2], first_instructions=["%x %s %s" % i for i in insns[:6]]))
        lemmas = fp_lemmas(stats)
        for l in lemmas:
            obligations += 1
            queries += 1
            if l["verdict"] == "violated":
                violations.append(dict(kind="fp-lemma", kernel="avx+sse", lemma=l["lemma"], witness={k: v for k, v in l.items() if k not in ("lemma", "verdict")}))
            elif l["verdict"] == "unknown":
                inconclusive.append("fp lemma unknown: " + l["lemma"])

        # classify, replay natively, match known findings
        sigs = {}
        for v in violations:
            if v["kind"] == "misaligned-access":
                sig = "misaligned-access:%s" % v["kernel"]
            elif v["kind"] == "fp-lemma":
                sig = "fp-lemma:" + v["lemma"].split(":")[0]
            else:
                sig = "%s:%s" % (v["kind"], v["kernel"])
            sigs.setdefault(sig, []).append(v)
        known_path = os.path.join(VERIF, "known_findings.json")
        known = json.load(open(known_path)) if os.path.exists(known_path) else {"findings": []}
        import fnmatch
        exit_code, reproduced, attempted = 0, 0, 0
        printed = set()
        os.makedirs(os.path.join(VERIF, "replays"), exist_ok=True)
        for sig, vs in sorted(sigs.items()):
            v = vs[0]
            attempted += 1
            if v["kind"] == "misaligned-access":
                impl = v["kernel"].split(".")[0]
                fn = {"_euclidean_distance_squared": "EuclideanDistance", "_manhattan_distance": "ManhattanDistance", "_cosine_similarity_dot_norm": "CosineDistance"}[v["kernel"].split(".", 1)[1]]
                # the first site per kernel may be a 16-byte one: replay the site with the largest requirement
                v = max(vs, key=lambda x: (x.get("required_alignment", 16), -(x.get("len") or 8)))
                r = native(scratch, "misaligned", impl, fn, n=v.get("len") or 8, mod=v.get("base_mod", 4) or 4, align=v.get("required_alignment", 16))
                ok = r.startswith("CRASH")
            elif v["kind"] == "out-of-bounds-read":
                impl = v["kernel"].split(".")[0]
                fn = {"_euclidean_distance_squared": "EuclideanDistance", "_manhattan_distance": "ManhattanDistance", "_cosine_similarity_dot_norm": "CosineDistance"}[v["kernel"].split(".", 1)[1]]
                r = native(scratch, "oob", impl, fn, n=v["len"])
                ok = r.startswith("CRASH")
            elif v["kind"] == "value-mismatch":
                impl = v["kernel"].split(".")[0]
                fn = {"_euclidean_distance_squared": "EuclideanDistance", "_manhattan_distance": "ManhattanDistance", "_cosine_similarity_dot_norm": "CosineDistance"}[v["kernel"].split(".", 1)[1]]
                r = native(scratch, "value", impl, fn, vectors={"A": v["a"], "B": v["b"]})
                ok = r.startswith("VERIF-C15 values") and r.split()[4] == "true"
            elif v["kind"] == "fp-lemma" and "manhattan" in v["lemma"]:
                r = native(scratch, "manhattan-overflow", "avx")
                ok = r.startswith("VERIF-C15 values") and r.split()[4] != r.split()[5]
            elif v["kind"] == "fp-lemma":
                r = native(scratch, "cosine-overflow", "avx")
                ok = r.startswith("VERIF-C15 values") and r.split()[4] == "true"
            else:
                r, ok = "not-replayed", True
            rp = os.path.join(VERIF, "replays", "C15-%s.json" % hashlib.sha256(sig.encode()).hexdigest()[:10])
            with open(rp, "w") as f:
                json.dump(dict(property="C15", signature=sig, violation=v, count=len(vs), native=r), f, indent=1)
            if not ok:
                inconclusive.append("counterexample %s did not reproduce natively: %s" % (sig, r))
                continue
            reproduced += 1
            kf = next((k for k in known.get("findings", []) if k["property"] == "C15" and fnmatch.fnmatchcase(sig, k["signature"])), None)
            if kf:
                if kf["signature"] not in printed:
                    printed.add(kf["signature"])
                    print("KNOWN-FINDING: property=C15 %s" % kf["what"])
            else:
                print("VIOLATION property=C15 replay=%s" % rp)
                log("  violation signature:", sig, "| native:", r)
                exit_code = 1
        # the Go wrappers (gosmt, race detection)
        wrappers_ev = None
        try:
            wrappers_ev, wres = wrapper_phase(scratch, tier)
            paths += wrappers_ev.get("paths") or 0
            for sig, rp, r, ok in wres:
                attempted += 1
                sigs.setdefault(sig, []).append({"kind": "wrapper", "replay": rp})
                if not ok:
                    inconclusive.append("counterexample %s did not reproduce natively: %s" % (sig, r))
                    continue
                reproduced += 1
                print("VIOLATION property=C15 replay=%s" % rp)
                log("  violation signature:", sig, "| native:", r)
                exit_code = 1
        except Inconclusive as e:
            inconclusive.append("wrappers: %s" % e)
        if exit_code == 0 and inconclusive:
            exit_code = 2
        for m in inconclusive:
            log("  INCONCLUSIVE:", m)
        ev = {
            "property_id": "C15", "tier": tier, "seed": seed, "level": "model_checking",
            "coverage": {
                "states": max(paths, 1), "transitions": max(stats["instructions"], 1), "traces_validated_against_impl": reproduced,
                "samples": samples or [{"note": "no path completed"}],
                "exhaustive": not inconclusive,
                "technique": "symbolic execution of the disassembled kernels (objdump of the freshly built test binary) with z3: len and base addresses as 64-bit bit-vector variables, lanes as exact-integer terms; per-lane Float32 lemmas",
                "bounds": {"len": "1..%d (memory, alignment)" % L, "value_equality_len": "1..%d" % N3, "lane_values": "integers |v|<=64 (cosine |v|<=8): all float32 operations exact for the lengths compared"},
                "kernels": kernels_ev, "go_wrappers": wrappers_ev, "obligations": obligations, "solver_queries": queries, "solver_time_s": round(stats["solver_s"], 2),
                "symbolic_paths": paths, "instructions_executed": stats["instructions"], "fp_lemmas": lemmas,
                "violation_signatures": {s: len(v) for s, v in sigs.items()},
                "native_replays": {"attempted": attempted, "reproduced": reproduced},
                "outside_bounds": "agreement within a ULP bound for arbitrary finite floats; len above the bound; the Go wrappers' &a[0] on empty slices (C12); in the wrapper harness the kernel is a stub with the kernel's memory effect (two concurrent callers, one call each)",
                "inconclusive": inconclusive,
            },
            "assumptions": ["objdump's decoding of the kernels is trusted (the c2goasm comments in the .s files agree with it)",
                            "the portable kernels are represented by their formulas over the same lane variables (sum of squares, sum of absolute differences, dot and product of squared norms)",
                            "z3 5.1 verdicts trusted"],
            "wall_s": round(time.time() - t0, 2), "violations": 1 if exit_code == 1 else 0,
        }
        evdir = os.environ.get("VERIF_EVIDENCE_DIR", os.path.join(VERIF, "evidence"))
        os.makedirs(evdir, exist_ok=True)
        with open(os.path.join(evdir, "C15.json"), "w") as f:
            json.dump(ev, f, indent=1, default=str)
        log("check C15 tier=%s: exit=%d paths=%d obligations=%d queries=%d violations(sigs)=%d inconclusive=%d wall=%.1fs" % (
            tier, exit_code, paths, obligations, queries, len(sigs), len(inconclusive), time.time() - t0))
        return exit_code
    except Inconclusive as e:
        log("  INCONCLUSIVE:", e)
        return 2
    finally:
        shutil.rmtree(scratch, ignore_errors=True)


if __name__ == "__main__":
    sys.exit(run("C15", sys.argv[1] if len(sys.argv) > 1 else "quick", 0))

#!/usr/bin/env python3
"""Regenerate /verif/MANIFEST.json from checks/props.py and the texts below."""
import json, os, sys
sys.path.insert(0, os.path.dirname(os.path.abspath(__file__)))
import props

TEXT = {
 "C01": ("Bounded symbolic model checking of the real Hnsw Insert/Remove/Search/Save/Load: histories up to the bound are path decisions, vectors and query are solver variables; every result assertion (live, true score, sorted, unique, <=k, non-empty) is discharged by z3 per path and counterexamples are replayed natively.",
         "bounds: <=5 operations, 4 ids, levels {0,1}, M in {1,2}, 1-D grid vectors, portable Manhattan kernel; gosmt+z3 trusted; dataset-level merge is C09, partition update path is exercised by the C02/C04 harnesses"),
 "C02": ("Bounded symbolic model checking of the real partition apply path (process + six *Value functions) against a sequential reference map: outcomes, contents, Len and BytesSize after every step.",
         "bounds: <=3-4 changes, 2-3 ids, <=2 items per batch, metadata shapes nil/empty/1/2 keys plus a 256-byte key (must be refused with nothing changed, also on the remove+insert update path); proto codec opaque; outcome read from a buffered channel"),
 "C04": ("Bounded symbolic model checking: one symbolic log applied to a full-replay replica (independent map orders) and to a replica that restores the snapshot of every cut on top of every applied prefix; contents must be equal.",
         "bounds: logs of <=3 entries (<=2 with batch kinds), 2-3 ids; follower outcomes not observable; graph shape not compared"),
 "C07": ("Bounded symbolic model checking of the exactness clause with a brute-force rank oracle over the same distance terms; the recall floor on large random sets is statistical and is not decided.",
         "bounds: M in {1,2}, n<=2M+1, n<=max(ef,k), levels {0,1}, four selection modes; recall@10 clause not decided"),
 "C08": ("Bounded symbolic model checking of Save -> fragmenting reader -> Load on symbolic index states, with field-by-field comparison, resave/reload, byte-counter and stale-item checks; length fields probed with lengths around 2^8/2^16 as solver variables.",
         "bounds: <=3 items (5 operations in one configuration), readers delivering all/1/2..5 bytes per call; metadata with a key > 255 bytes or a value > 65535 bytes must be refused at insertion (was a known finding, repaired by f2b1ce0)"),
 "C09": ("Bounded symbolic model checking of the real Dataset.Search goroutines/collector with modelled channels and select: every worker outcome, replica choice, completion order and select choice within the bound; scores symbolic with a rank oracle. End-to-end variant: remote nodes are real Datasets whose real SearchPartitions answers from real indexes with symbolic vectors; the answer must be the k best of the whole dataset with true scores and no id twice.",
         "bounds: <=2 partitions on 2 remote nodes (3 partitions on 3 nodes with one worker each, k=2), <=2 items per partition; interleavings at synchronisation points; remote services are harness pb.SearchClient implementations (end-to-end variant: backed by real Datasets)"),
 "C10": ("Bounded symbolic model checking with the 128-bit id and the partition count as bit-vector variables: range, reference-function equality, determinism, and agreement of every API path (single and batch) on the owner; two solvers must agree on the arithmetic core.",
         "bounds: n in 1..1024 for UuidMod; P<=4 (quick) for the API paths plus one 300-partition run; z3 5.1 and cvc5 --solve-bv-as-int"),
 "C11": ("Bounded model checking of the real proposer/apply-loop interplay over a harness raft node: every interleaving at synchronisation points with commit/no-commit, plus unreachable owners and mixed batches.",
         "bounds: <=2 callers, 1-2 preemptions, 3-item batches; real raft replaced by a harness etcdRaft.Node feeding an apply goroutine; timeouts fire only when everything is blocked; no solver variables occur (exhaustive path enumeration by the symbolic executor)"),
 "C15": ("Bounded symbolic checking of the machine code of the six AVX/SSE kernels (disassembled from the freshly built binary): for every length in the bound and every 4-byte aligned base address, every load stays inside the two vectors and every store hits a result cell; alignment requirements; equality with the portable formulas for all exact-integer lane values; per-lane Float32 lemmas for the places where the kernels' arithmetic differs. Agreement within a ULP bound for arbitrary finite floats is not decided.",
         "bounds: len 1..64 (512 thorough) for memory/alignment, len <= 16 (32) for value equality with integer lanes |v|<=64 (cosine |v|<=8); three known findings (SSE alignment faults, Manhattan sqrt-of-square overflow, cosine norm-product overflow); objdump decoding trusted"),
 "C16": ("Bounded model checking of Allocator.getPartitionsNodeIds over all Fisher-Yates outcomes; independence as a cover obligation confirmed natively by repeated runs.",
         "bounds: N<=3-4, R<=3, P<=2-3; no solver variables occur (exhaustive path enumeration by the symbolic executor)"),
 "C17": ("Bounded symbolic model checking of the real Dataset.SizeInfo goroutines with symbolic remote sizes: sum, exactly-once lookup, failure propagation, no goroutine left blocked.",
         "bounds: <=3 partitions over local + 2 remote nodes (2 partitions when remote nodes may have departed: no cached client and no address, so the dial fails); interleavings at synchronisation points"),
 "C18": ("Bounded model checking of the real Allocator loop and cluster.Conn under concurrent catalogue and membership drivers; a watchdog that can only fire when all goroutines are blocked reports a wedge.",
         "bounds: <=2 membership and <=3 catalogue events, 1-3 preemptions; partitions not assigned to the local node (raft loading not exercised); no solver variables occur"),
 "C03": ("Bounded model checking at three levels. (1) Three replicas of a real partition (real index, apply path, proposeAndWaitForCommit, ready loop, badgerWAL) over the real etcd/raft (interpreted) behind the faulty harness network: a sequential client writes through whichever replica leads; one replica - a minority - crashes at any durable-write boundary of its store and restarts on the same database; optional partition, message fault and log compaction; afterwards every replica, the restarted one included, must hold exactly the acknowledged history, optionally plus the write in flight. (2) One node end to end with a crash before/after every Badger flush (harness raft node). (3) The host-loop obligations on every Ready shape: persist before apply/acknowledge, order, snapshot labelling, restore before the first Ready.",
         "bounds: (1) 2-3 single writes (insert/update/remove) on 1-2 ids, 3 replicas, 1 crash, <=1 partition, <=1 message fault; (2) <=3 writes; (3) <=2 Readys with <=2 entries; Badger is an API-level model (a flushed batch is durable atomically); WAL answers across reopen are C06; not replayed natively (in-memory network, crash hooks and quiescence detection are engine-side)"),
 "C05": ("Bounded model checking at two levels. (1) A 3-replica group of real RaftGroups around the real etcd/raft (interpreted, not stubbed) over real badgerWALs behind a faulty harness network: message loss (with and without error), duplication, reordering, one network partition (leader or follower side), one crash at a durable-write boundary or one graceful restart, optional log compaction so that laggards need a snapshot. Checked: every message's term, every granted vote and every acknowledged entry is durable on the sender when it leaves; applied lists of all replicas (also of restarted ones) are prefixes of one another at every quiescent point; a restarted replica resumes from the log and term it had made durable; after the faults stop a fresh proposal commits everywhere within the tick bound. (2) The host-loop obligations on every Ready shape (harness node), and restart-not-bootstrap through the real Server.setup run twice.",
         "bounds: 3 replicas, <=1 message fault (2 thorough) per history, 1 partition, 1 crash or restart, 2-3 proposals (+2 per round to an isolated stale leader), fault decision points as listed in evidence.outside_bounds; one deterministic goroutine schedule between harness-driven ticks; not replayed natively (in-memory network, crash hooks and quiescence detection are engine-side); Ready-shape harness: <=2 Readys, <=2 messages of 5 types"),
 "C06": ("Bounded symbolic differential checking of the real badgerWAL against etcd's real MemoryStorage over an API-level Badger model: every call sequence in the bound (appends incl. conflicting overwrites, hard state, received snapshots below/at/above the last index, compaction, reopen), terms symbolic through the real raftpb codec, every read compared; second group unaffected; deleted group looks fresh. Counterexamples are replayed on a real in-memory Badger.",
         "bounds: <=3 calls (4 thorough), batches <=2, terms < 100; Badger API model trusted (validated by native replays); reference driven per the raft contract"),
 "C12": ("Bounded model checking of a one-node server assembled from the real components (handlers, DatasetManager, Dataset, partitions, ready loops, badgerWAL, Allocator): one hostile well-typed request per RPC over all request shapes in the bound; panics, fatal logs (apply errors) and deadlocks are violations, and the state the request leaves behind must snapshot and restore on a fresh replica; counterexamples replayed on a native one-node assembly with real etcd raft and real in-memory Badger.",
         "bounds: id shapes {valid, unknown, 15 bytes, empty}, vector shapes {right, longer, empty} with values {number, NaN}, k in {0,2,2^32-1}, <=2 batch items, client-supplied BatchItem.level in {0,-2,2^28}, metadata {none, one key, 256-byte key, 65536-byte value}, create requests with client-filled id/partitions/size and counts of 2^32-1, catalogue shapes dimension 0..2 / partitions 0..2 / replicas 0..1 / undefined space; one schedule per request; no solver variables occur (exhaustive path enumeration by the symbolic executor)"),
 "C14": ("Bounded model checking of the catalogue state machine (every log of create/delete/replica changes, every snapshot cut, every applied prefix: replay == restore+replay), of restart through the real Server.setup wiring executed twice on one data directory, and of a 2-3 member cluster of real Servers over a shared committed log (creates/deletes through any member, replica addition by the allocator, leader compaction, late joiner, restart of any member): every member lists the same catalogue, acknowledged datasets listed, deleted ones absent.",
         "bounds: logs <=3-4 entries over 2 dataset ids; <=2 datasets with <=2 partitions on <=3 members, one restart; harness raft (one-member groups, or one shared committed log for the zero groups); restart and cluster runs are not replayed natively"),
 "C19": ("Bounded symbolic model checking of the real utils.PriorityQueue + container/heap SSA: all push/pop/peek/reverse histories up to the bound, priorities symbolic; assertions discharged by z3 per path.",
         "bounds: 5 mixed / 6 push-pop operations (7 / 8 thorough) followed by a full drain, one Reverse per history; priorities finite non-NaN"),
 "C20": ("Bounded model checking of a 1-3 member cluster of real Servers (Server.setup / JoinCluster, NodesManager, the gRPC AddNode handler and client stub, zero-group ready loops, badgerWAL) over an in-memory gRPC transport, at two levels. (1) Over the real etcd/raft (interpreted): joins through any earlier member (a follower forwards the proposal), every raft message may be lost (with or without an error for the sender) or duplicated within a fault budget, the leader may stop right after it acknowledged a join and come back later, the last member may be removed, the leader may compact, any member may restart with its original command line; after the faults stop every live member must list exactly the acknowledged members with the announced addresses and a leader must exist. (2) Over a shared committed log (proposals commit at once): broken join handshakes with retry, compaction after every change, restart with and without the join list, several lives of one member, installation of a zero-group snapshot on another member.",
         "bounds: <=3 members (4 without compaction in one thorough run of level 2), level 1: <=1 message fault, one leader stop, one restart, deterministic goroutine schedule between harness-driven ticks, RPC deadlines modelled by engine timers; level 2: one broken handshake per join, one removal, one restart per history, <=3 lives with <=2-3 joins; not replayed natively by the driver - the three defects level 1 found were demonstrated natively with real servers over loopback gRPC (findings/C20_*_demo_test.go.txt)"),
 "C13": ("Reduced claim: bounded model checking of the real Hnsw under concurrency at synchronisation-point granularity: one writer with concurrent readers (the server's use), two concurrent inserts, and concurrent insert/remove and remove/remove; every interleaving at lock acquisitions and atomic operations within the preemption bound; no panic, no all-blocked state, set-linearizable outcomes and contents, concurrent search results were live during the search with true scores, C01 guarantees at quiescence. Data races: vector-clock happens-before detection over every heap load/store, map operation and sync/atomic access on every explored schedule (mixed atomic/plain access included), confirmed natively with the Go race detector.",
         "bounds: 2 goroutines (3 in the thorough tier) with one operation each on an index of <=2 items, 3 ids, levels {0,1}, <=2 preemptions (3 thorough), M=1 (more configurations thorough); four entrypoint hand-over races between concurrent writers are known findings (natively demonstrated, findings/C13_stress_test.go.txt)"),
}
NA = {
}
PENDING = "check not built yet in this session (see DESIGN.md section 8 build order); no claim is made"

def main():
    ids = [json.loads(l)["id"] for l in open("/verif/properties.jsonl")]
    m = {
        "version": 1,
        "setup_cmd": "cd /verif/engine && GOFLAGS=-mod=mod GOPROXY=off GOSUMDB=off GOTOOLCHAIN=local go build -o /verif/bin/gosmt ./gosmt",
        "hooks": {"guard": "verif",
                  "enable": "no source hooks are committed to /repo: harnesses, the verifrt run-time and the export shims are overlay files under /verif/harness (build tag verif), injected with go/packages Overlay for the symbolic run and `go test -tags verif -overlay` for the native replay",
                  "baseline_off_cmd": "/verif/bin/baseline", "source_commits": [], "add_only": True},
        "engines": [{"name": "asmsmt", "path": "/verif/checks/c15.py", "serves_properties": ["C15"],
                     "kind_free_text": "symbolic executor for the x86-64 SIMD kernels (objdump disassembly of the freshly built test binary -> z3 terms: bit-vector registers/flags/addresses, exact-integer lanes, Float32 lemmas); counterexamples replayed natively in a child process"},
                    {"name": "gosmt", "path": "/verif/engine/gosmt", "serves_properties": sorted(props.PROPS.keys()),
                     "kind_free_text": "bounded symbolic executor for Go SSA (fork of x/tools/go/ssa/interp: symbolic scalars over bit-vectors/reals, ordered maps with nondeterministic iteration, baton-scheduled goroutines with modelled channels/select/locks/timers) emitting SMT-LIB2 to z3/cvc5; counterexamples replayed natively against the real build"}],
        "checks": [], "not_applicable": [],
        "notes": "Exit codes of bin/check: 0 held on everything explored (KNOWN-FINDING lines for listed defects), 1 replayed violation not listed (VIOLATION line), 2 inconclusive (solver unknown, unwinding failure, engine limitation, vacuous harness, unreproduced counterexample) - never a VIOLATION line. See DESIGN.md.",
    }
    for pid in ids:
        if pid in props.PROPS:
            cfg = props.PROPS[pid]
            text, note = TEXT[pid]
            m["checks"].append({
                "property_id": pid,
                "quick_cmd": "bin/check %s --tier quick" % pid,
                "thorough_cmd": "bin/check %s --tier thorough" % pid,
                "evidence_file": "/verif/evidence/%s.json" % pid,
                "replay_cmd_template": "see the replay JSON: inputs/decisions of the counterexample; `bin/check %s --tier quick` re-derives and replays it natively" % pid,
                "engine": "asmsmt" if pid == "C15" else "gosmt",
                "level_claimed": {"category": cfg.get("level", "model_checking"), "text": text, "design_ref": "DESIGN.md section 5 " + pid},
                "level_note": note,
                "technique": cfg.get("technique", "solver-based bounded symbolic execution of go/ssa"),
            })
        else:
            m["not_applicable"].append({"property_id": pid, "reason": NA.get(pid, PENDING)})
    json.dump(m, open("/verif/MANIFEST.json", "w"), indent=1)
    print("checks:", [c["property_id"] for c in m["checks"]])
    print("not_applicable:", [c["property_id"] for c in m["not_applicable"]])

main()

#!/bin/sh
# exploratory helper (not a registered check): run the thorough tier of every claimed property in turn
# and record exit code + wall time; evidence goes to a scratch directory.
mkdir -p /tmp/thorough-evidence
for id in ${IDS:-C19 C16 C10 C17 C18 C11 C09 C07 C08 C02 C06 C03 C05 C14 C04 C01 C12}; do
  start=$(date +%s)
  VERIF_EVIDENCE_DIR=/tmp/thorough-evidence /verif/bin/check $id --tier thorough > /tmp/thorough-$id.log 2>&1
  rc=$?
  echo "THOROUGH $id exit=$rc wall=$(( $(date +%s) - start ))s" 
  grep -E 'gosmt Verif|INCONCLUSIVE|VIOLATION|KNOWN' /tmp/thorough-$id.log | cut -c1-260 | head -14
done
echo THOROUGH-ALL-DONE

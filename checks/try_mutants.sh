#!/bin/sh
# usage: try_mutants.sh <worktree> <outlog> <ID:diff> ...   (evaluation helper, not a registered check)
WT=$1; shift; LOG=$1; shift
git -C /repo worktree add -q --force $WT HEAD 2>/dev/null || true
git -C $WT checkout -q --detach $(git -C /repo rev-parse HEAD)
for item in "$@"; do
  id=${item%%:*}; diff=${item#*:}
  git -C $WT checkout -q -- . ; git -C $WT clean -fdq
  if ! git -C $WT apply $diff; then echo "MUTANT $id $diff: does not apply" >> $LOG; continue; fi
  start=$(date +%s)
  VERIF_REPO=$WT VERIF_EVIDENCE_DIR=/tmp/mutant-evidence /verif/bin/check $id --tier quick > /tmp/mutant-out.$$ 2>&1
  rc=$?
  echo "MUTANT $id $diff: exit=$rc ($(( $(date +%s) - start ))s)" >> $LOG
  grep -E 'VIOLATION|violation signature|INCONCLUSIVE|KNOWN-FINDING|^check ' /tmp/mutant-out.$$ | cut -c1-400 | head -12 >> $LOG
done
git -C $WT checkout -q -- . ; git -C /repo worktree remove --force $WT
rm -f /tmp/mutant-out.$$
echo ALLDONE >> $LOG

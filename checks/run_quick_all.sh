#!/bin/sh
# helper (not a registered check): run the quick tier of every claimed property in turn on /repo,
# writing the evidence files under /verif/evidence, and record exit code + wall time.
for id in ${IDS:-C19 C16 C10 C17 C18 C11 C09 C07 C08 C02 C06 C03 C05 C14 C04 C01 C12 C15 C20}; do
  start=$(date +%s)
  /verif/bin/check $id --tier quick > /tmp/quick-$id.log 2>&1
  rc=$?
  echo "QUICK $id exit=$rc wall=$(( $(date +%s) - start ))s"
  grep -E 'INCONCLUSIVE|VIOLATION|KNOWN' /tmp/quick-$id.log | cut -c1-260 | head -8
done
echo QUICK-ALL-DONE

#!/usr/bin/env python3
"""Driver for the /verif checks.

  check.py <ID> --tier quick|thorough

Rebuilds the encoding from /repo's working tree (gosmt loads the packages and
overlays the harnesses), runs the bounded symbolic exploration, replays every
distinct counterexample natively against the real build, matches replayed
violations against known_findings.json, writes evidence/<ID>.json.

Exit 0: held on everything explored (KNOWN-FINDING lines for listed defects).
Exit 1: a replayed violation not listed       -> VIOLATION property=<id> replay=<path>
Exit 2: inconclusive (solver unknown, unwinding failure, engine error,
        vacuous harness, counterexample that does not reproduce). No VIOLATION line.
"""
import argparse
import re
import fnmatch
import hashlib
import json
import os
import shutil
import subprocess
import sys
import tempfile
import time

VERIF = os.path.dirname(os.path.dirname(os.path.abspath(__file__)))
REPO = os.environ.get("VERIF_REPO", "/repo")
HARNESS = os.path.join(VERIF, "harness")
GOSMT = os.path.join(VERIF, "bin", "gosmt")
ENGINE = os.path.join(VERIF, "engine")

sys.path.insert(0, os.path.join(VERIF, "checks"))
import props  # noqa: E402

GOENV = dict(os.environ, GOFLAGS="-mod=mod", GOPROXY="off", GOSUMDB="off", GOTOOLCHAIN="local")


def log(*a):
    print(*a, file=sys.stderr, flush=True)


def ensure_engine():
    srcs = []
    for root, _, files in os.walk(ENGINE):
        for f in files:
            if f.endswith(".go") or f in ("go.mod", "go.sum"):
                srcs.append(os.path.join(root, f))
    newest = max(os.path.getmtime(p) for p in srcs)
    if os.path.exists(GOSMT) and os.path.getmtime(GOSMT) >= newest:
        return
    os.makedirs(os.path.dirname(GOSMT), exist_ok=True)
    log("building gosmt ...")
    subprocess.run(["go", "build", "-o", GOSMT, "./gosmt"], cwd=ENGINE, env=GOENV, check=True)


def sha(path):
    try:
        with open(path, "rb") as f:
            return hashlib.sha256(f.read()).hexdigest()[:16]
    except OSError:
        return None


def run_gosmt(run, tier, scratch, idx):
    out = os.path.join(scratch, "gosmt-%d.json" % idx)
    cmd = [GOSMT, "run", "-dir", REPO, "-overlay", HARNESS,
           "-pkg", run["pkg"], "-entry", run["entry"],
           "-workers", str(run.get("workers", min(16, os.cpu_count() or 4))),
           "-solver", run.get("solver", "z3"),
           "-timeout-ms", str(run.get("timeout_ms", 20000)),
           "-unwind", str(run.get("unwind", 64)),
           "-bounds", run.get("bounds", ""),
           "-conc-limit", str(run.get("conc_limit", 64)),
           "-samples", "8", "-vio-grace", str(run.get("vio_grace", 40)),
           "-out", out]
    cmd += ["-max-seconds", str(run.get("max_seconds", 900 if tier == "quick" else 5400))]
    if run.get("max_paths"):
        cmd += ["-max-paths", str(run["max_paths"])]
    log("  run:", " ".join(cmd[1:]))
    p = subprocess.run(cmd, env=GOENV, stdout=subprocess.PIPE, stderr=subprocess.PIPE, text=True)
    sys.stderr.write(p.stderr[-4000:])
    if not os.path.exists(out):
        return None, p.returncode, p.stderr[-2000:]
    with open(out) as f:
        return json.load(f), p.returncode, ""


def signature(v):
    tags = ",".join(sorted(v.get("tags") or []))
    sig = v["label"]
    if v["kind"] != "assert":
        d = (v.get("detail") or "").split("\n")[0]
        if v["kind"] == "deadlock":
            # goroutine numbers and addresses differ between schedules of one and the same wedge
            d = re.sub(r"0x[0-9a-f]+|\d+", "N", d)
        sig += ":" + d[:120]
    if tags:
        sig += "{" + tags + "}"
    return sig


def write_replay(pid, run, v):
    os.makedirs(os.path.join(VERIF, "replays"), exist_ok=True)
    body = {
        "property": pid,
        "entry": run["entry"],
        "pkg": run["pkg"],
        "label": v["label"],
        "kind": v["kind"],
        "detail": v.get("detail", ""),
        "signature": signature(v),
        "bounds": parse_bounds(run.get("bounds", "")),
        "inputs": v.get("inputs") or [],
        "decisions": v.get("prefix") or [],
        "sched": v.get("sched") or [],
        "trace": v.get("trace") or [],
        "path_cond": v.get("path_cond", ""),
    }
    h = hashlib.sha256(json.dumps([body["entry"], body["signature"], body["inputs"]], sort_keys=True).encode()).hexdigest()[:10]
    path = os.path.join(VERIF, "replays", "%s-%s.json" % (pid, h))
    with open(path, "w") as f:
        json.dump(body, f, indent=1)
    return path


def parse_bounds(s):
    out = {}
    for kv in s.split(","):
        if "=" in kv:
            k, val = kv.split("=", 1)
            try:
                out[k] = int(val)
            except ValueError:
                pass
    return out


REPLAY_TEST = '''//go:build verif

package %(pkgname)s

import (
	"fmt"
	"os"
	"runtime"
	"runtime/debug"
	"strings"
	"testing"

	"github.com/marekgalovic/anndb/verifrt"
)

func runOneVerifReplay(path string, entry func()) (out string) {
	defer func() {
		if r := recover(); r != nil {
			if _, ok := r.(verifrt.Exhausted); ok {
				if f := verifrt.Failed(); len(f) > 0 {
					out = "FAILED " + strings.Join(f, ",")
				} else {
					out = "PASSED (vector exhausted)"
				}
				return
			}
			out = fmt.Sprintf("PANIC %%v", r)
			if os.Getenv("VERIF_REPLAY_STACK") != "" {
				out += " | " + strings.Replace(string(debug.Stack()), "\\n", " ; ", -1)
			}
		}
	}()
	verifrt.Reset(path)
	entry()
	if f := verifrt.Failed(); len(f) > 0 {
		return "FAILED " + strings.Join(f, ",")
	}
	return "PASSED"
}

func TestVerifReplay(t *testing.T) {
	entries := map[string]func(){
%(entries)s
	}
	if os.Getenv("VERIF_GOMAXPROCS") == "1" {
		// schedule-dependent counterexamples: one P makes goroutines run to their
		// next blocking point, which is the interleaving granularity of the model
		runtime.GOMAXPROCS(1)
	}
	list := strings.Split(os.Getenv("VERIF_REPLAYS"), ":")
	attempts := %(attempts)d
	for _, item := range list {
		if item == "" {
			continue
		}
		parts := strings.SplitN(item, "=", 2)
		fn := entries[parts[0]]
		if fn == nil {
			fmt.Printf("VERIF-REPLAY %%s NOENTRY\\n", parts[1])
			continue
		}
		res := "PASSED"
		if cl := os.Getenv("VERIF_COVER_LABEL"); cl != "" {
			// cover obligation: run the real code repeatedly, it must never satisfy the label
			res = "NEVER-COVERED"
			for a := 0; a < 400; a++ {
				runOneVerifReplay(parts[1], fn)
				if verifrt.Covered()[cl] {
					res = "COVERED"
					break
				}
			}
			fmt.Printf("VERIF-REPLAY %%s %%s\\n", parts[1], res)
			continue
		}
		for a := 0; a < attempts; a++ {
			res = runOneVerifReplay(parts[1], fn)
			if res != "PASSED" {
				break
			}
		}
		fmt.Printf("VERIF-REPLAY %%s %%s\\n", parts[1], res)
	}
}
'''


def go_package_name(pkg):
    # directory of pkg relative to repo -> package clause from one of its files
    d = os.path.join(REPO, pkg)
    for f in sorted(os.listdir(d)):
        if f.endswith(".go") and not f.endswith("_test.go"):
            with open(os.path.join(d, f)) as fh:
                for line in fh:
                    if line.startswith("package "):
                        return line.split()[1].strip()
    raise RuntimeError("no package clause in " + d)


def native_replay(pkg, items, scratch, attempts=1, timeout=600, gomaxprocs1=False, race=False):
    """items: list of (entry, replay_path). Returns {replay_path: result string}."""
    ov = {}
    for root, _, files in os.walk(HARNESS):
        for f in files:
            if f.endswith(".go"):
                src = os.path.join(root, f)
                rel = os.path.relpath(src, HARNESS)
                ov[os.path.join(REPO, rel)] = src
    entries = sorted(set(e for e, _ in items))
    test_src = REPLAY_TEST % dict(
        pkgname=go_package_name(pkg),
        entries="\n".join('\t\t"%s": %s,' % (e, e) for e in entries),
        attempts=attempts)
    tpath = os.path.join(scratch, "zz_verif_replay_%d_test.go" % (abs(hash(pkg)) % 100000))
    with open(tpath, "w") as f:
        f.write(test_src)
    ov[os.path.join(REPO, pkg, "zz_verif_replay_test.go")] = tpath
    ovpath = os.path.join(scratch, "overlay-%d.json" % (abs(hash(pkg)) % 100000))
    with open(ovpath, "w") as f:
        json.dump({"Replace": ov}, f)
    env = dict(GOENV, GOCACHE=os.environ.get("GOCACHE", os.path.join(os.path.expanduser("~"), ".cache", "go-build")))
    binpath = os.path.join(scratch, "replay-%d%s.test" % (abs(hash(pkg)) % 100000, "-race" if race else ""))
    cmd = ["go", "test", "-c", "-o", binpath, "-tags", "verif", "-vet=off", "-overlay", ovpath]
    if race:
        # the Go race detector; checkptr (switched on by -race) rejects the SIMD wrappers' length-as-pointer idiom
        cmd += ["-race", "-gcflags=all=-d=checkptr=0"]
        env["GORACE"] = "halt_on_error=1"
    cmd += ["./" + pkg.lstrip("./")]
    p = subprocess.run(cmd, cwd=REPO, env=env, stdout=subprocess.PIPE, stderr=subprocess.STDOUT, text=True)
    res = {}
    outall = p.stdout
    if p.returncode != 0 or not os.path.exists(binpath):
        log("native replay: test binary did not build:\n" + p.stdout[-3000:])
        return res, outall
    # one process per replay: a fatal crash (out of memory, stack overflow) of the
    # real code must not hide the other replays
    for e, path in items:
        renv = dict(env, VERIF_REPLAYS="%s=%s" % (e, path))
        tmo = timeout
        try:
            with open(path) as fh:
                meta = json.load(fh)
            if meta.get("kind") == "cover":
                renv["VERIF_COVER_LABEL"] = meta["label"].split(":", 1)[1]
            if meta.get("kind") == "deadlock":
                # a wedge shows natively as a run that never ends: do not wait the full replay timeout for each
                tmo = min(timeout, 120)
            if meta.get("kind") == "unwind":
                # unwinding bound exceeded: does the real code terminate on these inputs at all?
                tmo = min(timeout, 60)
        except (OSError, ValueError, IndexError):
            pass
        # schedule-dependent counterexamples are retried under several degrees of
        # real parallelism (the Go scheduler cannot be driven from outside)
        procs_list = [None]
        if gomaxprocs1:
            procs_list = ["2", "3", "4", "1", "8"]
        out = ""
        for procs in procs_list:
            if procs:
                renv["GOMAXPROCS"] = procs
            try:
                q = subprocess.run(["sh", "-c", "ulimit -v 12000000; exec \"$0\" -test.run '^TestVerifReplay$' -test.v -test.timeout %ds" % tmo, binpath],
                                   cwd=os.path.join(REPO, pkg), env=renv, stdout=subprocess.PIPE, stderr=subprocess.STDOUT, text=True, timeout=tmo + 30)
                out = q.stdout
            except subprocess.TimeoutExpired as ex:
                out = (ex.stdout or b"").decode("utf-8", "replace") if isinstance(ex.stdout, bytes) else (ex.stdout or "")
                res[path] = "TIMEOUT"
            if race and "WARNING: DATA RACE" in out:
                lines_ = [l.strip() for l in out.splitlines() if REPO in l and "zz_verif" not in l]
                res[path] = "RACE " + " | ".join(dict.fromkeys(os.path.relpath(l.split(" ")[0], REPO) for l in lines_[:12]))
                break
            if " PASSED" not in out:
                break
        got = res.get(path, "").startswith("RACE")
        for line in ([] if got else out.splitlines()):
            if line.startswith("VERIF-REPLAY "):
                _, rp, rest = line.split(" ", 2)
                res[rp] = rest
                got = True
        if not got and path not in res:
            first = ""
            for line in out.splitlines():
                if line.startswith("fatal error:") or line.startswith("panic:") or "cannot allocate" in line or "out of memory" in line:
                    first = line.strip()
                    break
            res[path] = "CRASH " + (first or out.strip().splitlines()[-1] if out.strip() else "no output")
        outall += out[-1500:]
    return res, outall


def load_known():
    p = os.path.join(VERIF, "known_findings.json")
    if not os.path.exists(p):
        return {"findings": [], "fixed": []}
    with open(p) as f:
        return json.load(f)


def main():
    ap = argparse.ArgumentParser()
    ap.add_argument("pid")
    ap.add_argument("--tier", default=os.environ.get("VERIF_TIER", "quick"))
    ap.add_argument("--keep", action="store_true")
    args = ap.parse_args()
    pid = args.pid
    tier = args.tier if args.tier in ("quick", "thorough") else "quick"
    seed = int(os.environ.get("VERIF_SEED", "0") or 0)
    t0 = time.time()
    cfg = props.PROPS[pid]
    ensure_engine()
    if cfg.get("custom"):
        # custom checks run under the tooling venv's python (z3 bindings)
        if "z3" not in sys.modules and os.path.exists("/opt/veriftools/pyvenv/bin/python3") and os.environ.get("VERIF_IN_VT") != "1":
            env = dict(os.environ, VERIF_IN_VT="1")
            return subprocess.call(["/opt/veriftools/pyvenv/bin/python3", os.path.abspath(__file__)] + sys.argv[1:], env=env)
        return cfg["custom"](pid, tier, seed)
    scratch = tempfile.mkdtemp(prefix="verif-%s-" % pid)
    try:
        return run_property(pid, tier, seed, cfg, scratch, t0)
    finally:
        if not args.keep:
            shutil.rmtree(scratch, ignore_errors=True)


def run_property(pid, tier, seed, cfg, scratch, t0):
    runs = cfg["runs"][tier]
    known = load_known()
    inconclusive = []
    agg = dict(paths=0, decisions=0, sat=0, unsat=0, unknown=0, solver_s=0.0, instrs=0, asserts={}, reached={},
               funcs=set(), stubs=set(), samples=[], status={}, exhaustive=True, runs=[])
    all_vios = []  # (run, violation)
    for idx, run in enumerate(runs):
        summ, rc, err = run_gosmt(run, tier, scratch, idx)
        if summ is not None and summ.get("stop_reason") == "violation-grace":
            # exploration was cut short after a violation. If every violation seen is a
            # listed known finding the rest of the space still has to be explored.
            sigs = set(signature(v) for v in summ["violations"] or [])
            if all(any(kf["property"] == pid and fnmatch.fnmatchcase(sg, kf["signature"]) for kf in known.get("findings", [])) for sg in sigs):
                summ, rc, err = run_gosmt(dict(run, vio_grace=0), tier, scratch, idx)
        if summ is None:
            inconclusive.append("run %s failed to produce a result (rc=%s): %s" % (run["entry"], rc, err[-400:]))
            continue
        agg["paths"] += summ["paths"]
        agg["decisions"] += summ["decisions"]
        agg["sat"] += summ["sat"]
        agg["unsat"] += summ["unsat"]
        agg["unknown"] += summ["unknown"]
        agg["solver_s"] += summ["solver_s"]
        agg["instrs"] += summ["instrs"]
        for k, v in summ["asserts"].items():
            agg["asserts"][k] = agg["asserts"].get(k, 0) + v
        for k, v in summ["reached"].items():
            agg["reached"][k] = agg["reached"].get(k, 0) + v
        for k, v in summ["status"].items():
            agg["status"][k] = agg["status"].get(k, 0) + v
        agg["funcs"].update(summ["funcs"] or [])
        agg["stubs"].update(summ["stubs"] or [])
        for s in (summ["samples"] or [])[:2]:
            agg["samples"].append({"entry": run["entry"], "bounds": run.get("bounds", ""), **{k: v for k, v in s.items() if k != "vector"}})
        for s in (summ["samples"] or []):
            if s.get("vector") is not None:
                agg.setdefault("vectors", []).append((run, s["vector"]))
        agg["runs"].append(dict(entry=run["entry"], pkg=run["pkg"], bounds=run.get("bounds", ""), solver=summ["solver"],
                                unwind=summ["unwind"], paths=summ["paths"], status=summ["status"],
                                exhaustive=summ["exhaustive"], stop_reason=summ["stop_reason"],
                                queries=dict(sat=summ["sat"], unsat=summ["unsat"], unknown=summ["unknown"]),
                                solver_s=round(summ["solver_s"], 2), wall_s=round(summ["wall_s"], 2),
                                max_depth=summ["max_depth"], violation_counts=summ["violation_counts"]))
        if not summ["exhaustive"]:
            agg["exhaustive"] = False
            if summ["stop_reason"] != "violation-grace":
                inconclusive.append("run %s (%s) not exhaustive: %s" % (run["entry"], run.get("bounds", ""), summ["stop_reason"]))
        if summ["unknown"]:
            inconclusive.append("run %s: %d solver queries answered unknown" % (run["entry"], summ["unknown"]))
        for e in summ["errors"] or []:
            inconclusive.append("run %s: %s" % (run["entry"], e.split("\n")[0][:300]))
        for st in ("engine-error", "unwind"):
            if summ["status"].get(st):
                inconclusive.append("run %s: %d paths ended with %s" % (run["entry"], summ["status"][st], st))
        # vacuity
        for lab in run.get("reach", []):
            if not summ["reached"].get(lab):
                inconclusive.append("vacuity: run %s never reached label %r" % (run["entry"], lab))
        for lab in run.get("must_assert", []):
            if not summ["asserts"].get(lab):
                inconclusive.append("vacuity: run %s never discharged assertion %r" % (run["entry"], lab))
        for lab in run.get("cover", []):
            if summ["cover_seen"].get(lab) and not summ["covered"].get(lab) and summ["exhaustive"]:
                all_vios.append((run, dict(label="cover:" + lab, kind="cover", detail="no explored path satisfies the cover obligation",
                                           inputs=(summ.get("cover_witness") or {}).get(lab) or [], prefix=[], tags=[])))
            elif not summ["cover_seen"].get(lab):
                inconclusive.append("vacuity: cover obligation %r never evaluated" % lab)
        for v in summ["violations"] or []:
            all_vios.append((run, v))

    # group by signature, replay representatives natively
    by_sig = {}
    for run, v in all_vios:
        by_sig.setdefault(signature(v), []).append((run, v))
    replay_results = {}
    confirmed = {}  # sig -> (replay path, result)
    attempts_cfg = cfg.get("replay_attempts", 1)
    per_pkg = {}
    reps = {}
    def known_match(sig):
        for kf in known.get("findings", []):
            if kf["property"] == pid and fnmatch.fnmatchcase(sig, kf["signature"]):
                return kf
        return None
    demonstrated = set()  # replay paths of listed findings whose native demonstration is committed (schedule-dependent)
    by_label_only = set()  # replay paths not run natively because enough signatures of the same label are
    max_native = cfg.get("max_native_replays", 24)
    n_native = 0
    labels_replayed = {}
    # unknown signatures first, so the replay budget goes to what would be reported
    for sig, lst in sorted(by_sig.items(), key=lambda kv: (known_match(kv[0]) is not None, kv[0])):
        reps[sig] = []
        for run, v in lst[: cfg.get("replays_per_signature", 2)]:
            path = write_replay(pid, run, v)
            reps[sig].append((run, v, path))
            kf = known_match(sig)
            if kf and kf.get("native_demonstration") and run.get("known_no_replay"):
                # a listed, schedule-dependent finding: reproducing it natively takes a stress loop of
                # unpredictable length; its native demonstration was recorded with the finding
                demonstrated.add(path)
                continue
            if not cfg.get("no_native_replay") and not run.get("no_native"):
                if n_native >= max_native and labels_replayed.get(v["label"], 0) > 0:
                    by_label_only.add(path)
                    continue
                n_native += 1
                labels_replayed[v["label"]] = labels_replayed.get(v["label"], 0) + 1
                per_pkg.setdefault((run["pkg"], v["kind"] == "race"), []).append((run["entry"], path))
    replay_log = ""
    for (pkg, is_race), items in per_pkg.items():
        res, out = native_replay(pkg, items, scratch, attempts=cfg.get("race_replay_attempts", 3000) if is_race else attempts_cfg,
                                 timeout=cfg.get("replay_timeout", 600), gomaxprocs1=cfg.get("gomaxprocs1", False), race=is_race)
        replay_results.update(res)
        replay_log += out[-2000:]
    # translator validation: model vectors of sampled violation-free paths are run
    # through the native build; every assertion the solver discharged must hold there
    n_validated, n_val_attempted = 0, 0
    if not cfg.get("no_native_replay") and not all_vios:
        val_pkg = {}
        val_paths = []
        for k, (run, vec) in enumerate([rv for rv in agg.get("vectors", []) if not rv[0].get("no_native")][: cfg.get("validation_vectors", 12)]):
            vpath = os.path.join(scratch, "validate-%d.json" % k)
            with open(vpath, "w") as f:
                json.dump({"property": pid, "entry": run["entry"], "kind": "validation", "label": "validation",
                           "bounds": parse_bounds(run.get("bounds", "")), "inputs": vec}, f)
            val_pkg.setdefault(run["pkg"], []).append((run["entry"], vpath))
            val_paths.append(vpath)
        for pkg, items in val_pkg.items():
            res, out = native_replay(pkg, items, scratch, attempts=1)
            for _, vp in items:
                n_val_attempted += 1
                r = res.get(vp, "")
                if r.startswith("PASSED"):
                    n_validated += 1
                else:
                    inconclusive.append("translator validation: a path the solver found violation-free does not pass natively on its model inputs (%s): %s" % (r, vp))
    n_replayed = len(replay_results)
    n_reproduced = 0
    for sig, lst in reps.items():
        for run, v, path in lst:
            r = replay_results.get(path)
            ok = False
            if path in demonstrated:
                ok = True
                r = "not-replayed (listed schedule-dependent finding; native demonstration: %s)" % known_match(sig).get("native_demonstration")
            elif cfg.get("no_native_replay") or run.get("no_native"):
                # (an exceeded unwinding bound cannot be told from non-termination without a native run: stays inconclusive)
                ok = v["kind"] != "unwind"
                r = "not-replayed (the harness depends on engine-side stubs that have no native counterpart)"
            elif v["kind"] == "cover":
                ok = r is not None and r.startswith("NEVER-COVERED")
            elif r is None:
                ok = False
            elif v["kind"] == "assert":
                ok = r.startswith("FAILED") and v["label"] in r.split(" ", 1)[1].split(",") if r.startswith("FAILED") else False
                if not ok and r.startswith("FAILED"):
                    ok = True  # a different assertion of the same harness failed natively: still a real failure
                if not ok and (r.startswith("PANIC") or r.startswith("CRASH") or r.startswith("TIMEOUT")):
                    ok = True
            elif v["kind"] in ("panic", "fatal"):
                ok = r.startswith("PANIC") or r.startswith("FAILED") or r.startswith("CRASH")
            elif v["kind"] == "deadlock":
                ok = not r.startswith("PASSED")
            elif v["kind"] == "unwind":
                # only a native run that never ends makes "bound exceeded" a violation (non-termination);
                # a run that ends means the bound was too small: inconclusive, as before
                ok = r.startswith("TIMEOUT") or "test timed out" in r
            elif v["kind"] == "race":
                # the Go race detector must report a race that involves one of the two source lines
                locs = re.findall(r"@([\w./-]+:\d+)", v.get("detail") or "")
                ok = r.startswith("RACE") and any(loc.split("/")[-1] in r for loc in locs)
            if ok:
                n_reproduced += 1
                confirmed.setdefault(sig, (path, r))
    # signatures beyond the native replay budget: confirmed when another signature of the same
    # assertion label reproduced natively
    confirmed_labels = set(by_sig[s_][0][1]["label"] for s_ in confirmed if s_ in by_sig)
    for sig, lst in reps.items():
        if sig in confirmed:
            continue
        for run, v, path in lst:
            if path in by_label_only and v["label"] in confirmed_labels:
                confirmed[sig] = (path, "not-replayed (replay budget; another violation of this assertion reproduced natively)")
                break
    unreproduced = [sig for sig in by_sig if sig not in confirmed]
    for sig in unreproduced:
        paths = [p for _, _, p in reps[sig]]
        inconclusive.append("counterexample for %s did not reproduce natively (%s): encoding or stub wrong? replays: %s" % (
            sig, [replay_results.get(p) for p in paths], paths))

    # known findings
    exit_code = 0
    lines = []
    kf_hit = []
    for sig, (path, r) in sorted(confirmed.items()):
        match = None
        for kf in known.get("findings", []):
            if kf["property"] == pid and fnmatch.fnmatchcase(sig, kf["signature"]):
                match = kf
                break
        if match:
            kf_hit.append(match)
        else:
            lines.append("VIOLATION property=%s replay=%s" % (pid, path))
            log("  violation signature: %s (native: %s, %d paths)" % (sig, r, len(by_sig[sig])))
            exit_code = 1
    seen_kf = set()
    for kf in kf_hit:
        key = kf["signature"]
        if key in seen_kf:
            continue
        seen_kf.add(key)
        print("KNOWN-FINDING: property=%s %s" % (pid, kf["what"]))
    for l in lines:
        print(l)
    if exit_code == 0 and inconclusive:
        exit_code = 2
    for m in inconclusive:
        log("  INCONCLUSIVE:", m)

    # evidence
    repo_funcs = {}
    for f in sorted(agg["funcs"]):
        name, _, file = f.partition("@")
        if file.startswith(REPO + "/"):
            repo_funcs[name] = {"file": os.path.relpath(file, REPO), "sha256_16": sha(file)}
    lib_funcs = sorted(f.partition("@")[0] for f in agg["funcs"] if not f.partition("@")[2].startswith(REPO + "/")
                       and "/harness/" not in f and "verifrt" not in f)
    samples = agg["samples"][:4]
    if not samples:
        samples = [{"note": "no sample collected"}]
    ev = {
        "property_id": pid,
        "tier": tier,
        "seed": seed,
        "level": cfg.get("level", "model_checking"),
        "coverage": {
            "states": max(agg["paths"], 0),
            "transitions": max(agg["decisions"], 0),
            "traces_validated_against_impl": n_reproduced + n_validated,
            "translator_validation": {"vectors_run_natively": n_val_attempted, "agreeing": n_validated,
                                      "what": "model inputs of sampled symbolic paths executed by the native build: all assertions the solver discharged on the path must hold natively"},
            "samples": samples,
            "exhaustive": bool(agg["exhaustive"] and not inconclusive),
            "explanation": cfg.get("explanation", ""),
            "technique": cfg.get("technique", ""),
            "symbolic_paths": agg["paths"],
            "path_status": agg["status"],
            "decisions": agg["decisions"],
            "interpreted_instructions": agg["instrs"],
            "solver_queries": {"sat": agg["sat"], "unsat": agg["unsat"], "unknown": agg["unknown"]},
            "solver_time_s": round(agg["solver_s"], 2),
            "assertions_discharged": agg["asserts"],
            "reach_labels": agg["reached"],
            "runs": agg["runs"],
            "bounds": [r.get("bounds", "") for r in runs],
            "outside_bounds": cfg.get("outside", ""),
            "functions_encoded_repo": repo_funcs,
            "functions_encoded_lib": lib_funcs[:200],
            "stubs": sorted(agg["stubs"]),
            "native_replays": {"attempted": n_replayed, "reproduced": n_reproduced},
            "violation_signatures": {s: len(l) for s, l in by_sig.items()},
            "known_findings_hit": [k["signature"] for k in kf_hit],
            "inconclusive": inconclusive,
        },
        "assumptions": cfg.get("assumptions", []),
        "wall_s": round(time.time() - t0, 2),
        "violations": sum(1 for l in lines),
    }
    evdir = os.environ.get("VERIF_EVIDENCE_DIR", os.path.join(VERIF, "evidence"))
    os.makedirs(evdir, exist_ok=True)
    with open(os.path.join(evdir, pid + ".json"), "w") as f:
        json.dump(ev, f, indent=1, default=str)
    log("check %s tier=%s: exit=%d paths=%d violations(sigs)=%d confirmed=%d known=%d inconclusive=%d wall=%.1fs" % (
        pid, tier, exit_code, agg["paths"], len(by_sig), len(confirmed), len(seen_kf), len(inconclusive), time.time() - t0))
    return exit_code


if __name__ == "__main__":
    sys.exit(main())

#!/bin/bash
# usage: C20_joiner_crash_demo.sh <repo dir>      (needs gdb; nothing is written into the repo)
# Two real anndb server processes on loopback. Node 1 bootstraps. Node 2 joins through node 1 and is
# KILLED (gdb) at the moment it is about to store its first log entries - after its first durable
# hard state. It is then started again with the same command line. Before fix d3423d6 the restarted
# node ignores the address list of the join handshake (it "has durable state"), knows nobody, cannot
# answer the leader and is never caught up: it lists only itself for good.
export GOFLAGS=-mod=mod GOPROXY=off GOSUMDB=off GOTOOLCHAIN=local
repo=$(cd "$1" && pwd); here=$(cd "$(dirname "$0")" && pwd)
work=$(mktemp -d /tmp/jcrash.XXXXXX)
cleanup() { kill $p1 $p2 2>/dev/null; sleep 0.5; [ -n "$KEEP" ] || rm -rf $work; }
trap cleanup EXIT
cp "$here/C20_joiner_crash_lister.go.txt" $work/lister_main.go
echo "{\"Replace\":{\"$repo/cmd/zzlister/main.go\":\"$work/lister_main.go\"}}" > $work/ov.json
(cd $repo && go build -gcflags 'all=-N -l' -o $work/anndb ./cmd/anndb && go build -overlay $work/ov.json -o $work/lister ./cmd/zzlister) || exit 2
P1=17041; P2=17042
$work/anndb -node-id 1 -port $P1 -data-dir $work/n1 > $work/n1.log 2>&1 & p1=$!
sleep 4
cat > $work/gdb.cmd <<G
set pagination off
set confirm off
handle SIGURG nostop noprint pass
handle SIGPIPE nostop noprint pass
set language c
break 'github.com/marekgalovic/anndb/storage/wal.(*badgerWAL).writeEntries' if entries.len > 0
run
kill
quit
G
timeout 120 gdb -q -batch -x $work/gdb.cmd --args $work/anndb -node-id 2 -port $P2 -data-dir $work/n2 -join 127.0.0.1:$P1 > $work/gdb.log 2>&1
grep -E "hit Breakpoint|killed" $work/gdb.log | head -3
rm -f $work/n2/anndb/LOCK
echo "node 1 after the join:            $($work/lister 127.0.0.1:$P1)"
$work/anndb -node-id 2 -port $P2 -data-dir $work/n2 -join 127.0.0.1:$P1 > $work/n2.log 2>&1 & p2=$!
sleep 20
a1=$($work/lister 127.0.0.1:$P1); a2=$($work/lister 127.0.0.1:$P2)
echo "node 1, 20 s after the restart:   $a1"
echo "node 2, 20 s after the restart:   $a2"
if [ "$a1" = "$a2" ] && [ "${a2%% *}" = "2" ]; then echo "PASS: both members list both members"; exit 0; fi
echo "FAIL: the restarted joiner does not list the members the cluster lists"; exit 1

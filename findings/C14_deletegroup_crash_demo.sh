#!/bin/bash
# usage: C14_deletegroup_crash_demo.sh <repo dir>   (needs gdb; copies nothing into the repo: go test -overlay)
# Kills a process inside badgerWAL.DeleteGroup (when it reaches hardStateKey) and restarts on the same store.
set -e
export GOFLAGS=-mod=mod GOPROXY=off GOSUMDB=off GOTOOLCHAIN=local
repo=$(cd "$1" && pwd); here=$(cd "$(dirname "$0")" && pwd)
work=$(mktemp -d /tmp/dgcrash.XXXXXX); trap 'rm -rf $work' EXIT
cp "$here/C14_deletegroup_crash_demo_test.go.txt" $work/zz_crash_demo_test.go
echo "{\"Replace\":{\"$repo/storage/wal/zz_crash_demo_test.go\":\"$work/zz_crash_demo_test.go\"}}" > $work/ov.json
(cd $repo && go test -c -vet=off -gcflags 'all=-N -l' -overlay $work/ov.json -o $work/wal.test ./storage/wal/)
mkdir $work/store
cat > $work/gdb.cmd <<G
set pagination off
set confirm off
handle SIGURG nostop noprint pass
handle SIGPIPE nostop noprint pass
break 'github.com/marekgalovic/anndb/storage/wal.(*badgerWAL).DeleteGroup'
run -test.run '^TestCrashDemoPhase1\$' -test.v
tbreak 'github.com/marekgalovic/anndb/storage/wal.(*badgerWAL).hardStateKey'
continue
kill
quit
G
CRASH_DEMO_DIR=$work/store gdb -q -batch -x $work/gdb.cmd $work/wal.test 2>&1 | grep -E "Breakpoint|Temporary|killed|Kill" | head
rm -f $work/store/LOCK
CRASH_DEMO_DIR=$work/store $work/wal.test -test.run '^TestCrashDemoPhase2$' -test.v

package main

// API-level model of dgraph-io/badger/v2 as used by storage/wal/badger.go:
// a database is a set of (key bytes, value bytes); View/Update run the
// closure against the committed state; iterators follow Badger's documented
// Seek/Valid/Next semantics (prefix, reverse); WriteBatch buffers Set/Delete
// in call order and Flush applies them in order; nothing is visible before
// Flush. Keys may contain symbolic bytes: ordering comparisons fork.
// This model is the trusted stub of the checks that use it and is validated
// by the native replays, which run on a real in-memory Badger.

import (
	"fmt"
	"go/types"
)

type bkv struct {
	key, val []value
}

type bdb struct {
	items  []bkv
	closed bool
	dir    string
}

type btxn struct {
	db       *bdb
	writable bool
	pending  []bop
	done     bool
}

type bop struct {
	del      bool
	key, val []value
}

type bitem struct {
	kv bkv
	it *biter // the iterator that produced the item (nil for Txn.Get)
}

type biter struct {
	txn     *btxn
	prefix  []value
	reverse bool
	order   []bkv // ascending order snapshot
	pos     int
	valid   bool
	// Item.Key() of an iterator item is only valid until the next Next(): the
	// returned slice aliases this buffer, which the next Key() overwrites
	keybuf []value
}

type bbatch struct {
	db      *bdb
	ops     []bop
	flushed bool
}

var (
	bdbs     map[*value]*bdb
	btxns    map[*value]*btxn
	bitems   map[*value]*bitem
	biters   map[*value]*biter
	bbatches map[*value]*bbatch
	bdbDirs  map[string]*bdb
)

func resetBadger() {
	bdbs = map[*value]*bdb{}
	btxns = map[*value]*btxn{}
	bitems = map[*value]*bitem{}
	biters = map[*value]*biter{}
	bbatches = map[*value]*bbatch{}
	bdbDirs = map[string]*bdb{}
}

const badgerPkg = "github.com/dgraph-io/badger/v2"

func badgerNew(fr *frame, typeName string) *value {
	pkg := fr.i.prog.ImportedPackage(badgerPkg)
	if pkg == nil {
		panic(engineError{"badger package not loaded"})
	}
	var cell value = zero(pkg.Type(typeName).Type())
	return &cell
}

func copyBytes(b []value) []value {
	out := make([]value, len(b))
	copy(out, b)
	return out
}

// bytesCmp: lexicographic comparison of byte slices with possibly symbolic bytes.
func bytesCmp(x, y []value) int {
	return extBytesCompare(nil, []value{x, y}).(int)
}

func bytesEq(x, y []value) bool {
	if len(x) != len(y) {
		return false
	}
	for i := range x {
		if !truth(equalsV(nil, x[i], y[i]), "badgerkey") {
			return false
		}
	}
	return true
}

func hasPrefixBytes(k, p []value) bool {
	if len(p) > len(k) {
		return false
	}
	return bytesEq(k[:len(p)], p)
}

func (db *bdb) find(key []value) int {
	for i := range db.items {
		if bytesEq(db.items[i].key, key) {
			return i
		}
	}
	return -1
}

func (db *bdb) apply(ops []bop) {
	for _, op := range ops {
		i := db.find(op.key)
		if op.del {
			if i >= 0 {
				db.items = append(db.items[:i:i], db.items[i+1:]...)
			}
			continue
		}
		if i >= 0 {
			db.items[i].val = op.val
		} else {
			db.items = append(db.items, bkv{op.key, op.val})
		}
	}
}

// view of the database as seen by a transaction (committed + own pending writes)
func (t *btxn) snapshot() []bkv {
	tmp := &bdb{items: append([]bkv(nil), t.db.items...)}
	tmp.apply(t.pending)
	return tmp.items
}

func sortedKVs(items []bkv) []bkv {
	out := append([]bkv(nil), items...)
	// insertion sort with forking comparisons
	for i := 1; i < len(out); i++ {
		for j := i; j > 0 && bytesCmp(out[j-1].key, out[j].key) > 0; j-- {
			out[j-1], out[j] = out[j], out[j-1]
		}
	}
	return out
}

func badgerErr(fr *frame, name string) value {
	pkg := fr.i.prog.ImportedPackage(badgerPkg)
	g, ok := pkg.Members[name].(interface{ Name() string })
	_ = g
	if !ok {
		return mkErrorValue(fr.i, "badger: "+name)
	}
	for gl, cell := range fr.i.globals {
		if gl.Pkg == pkg && gl.Name() == name {
			return *cell
		}
	}
	return mkErrorValue(fr.i, "badger: "+name)
}

func dbOf(p value) *bdb {
	pv, _ := p.(*value)
	if pv == nil {
		panic(targetRuntimeError{"invalid memory address or nil pointer dereference (nil *badger.DB)"})
	}
	db, ok := bdbs[pv]
	if !ok {
		panic(engineError{"badger.DB not created by badger.Open under the model"})
	}
	return db
}

func init() {
	p := badgerPkg + "."
	ext(p+"Open", func(fr *frame, a []value) value {
		cell := badgerNew(fr, "DB")
		// databases opened with the same non-empty Dir share their contents
		// (reopen after a restart); in-memory / empty-Dir databases are fresh
		dir := ""
		if opt, ok := a[0].(structure); ok {
			ts := fr.fn.Signature.Params().At(0).Type().Underlying().(*types.Struct)
			for k := 0; k < ts.NumFields(); k++ {
				if ts.Field(k).Name() == "Dir" {
					dir, _ = opt[k].(string)
				}
			}
		}
		if dir != "" {
			if db, ok := bdbDirs[dir]; ok {
				db.closed = false
				bdbs[cell] = db
				return tuple{cell, iface{}}
			}
		}
		db := &bdb{dir: dir}
		if dir != "" {
			bdbDirs[dir] = db
		}
		bdbs[cell] = db
		return tuple{cell, iface{}}
	})
	ext("(*"+p+"DB).Close", func(fr *frame, a []value) value { dbOf(a[0]).closed = true; return iface{} })
	runTxn := func(fr *frame, a []value, writable bool) value {
		db := dbOf(a[0])
		cell := badgerNew(fr, "Txn")
		t := &btxn{db: db, writable: writable}
		btxns[cell] = t
		res := call(fr.i, fr, 0, a[1], []value{cell})
		t.done = true
		if e, ok := res.(iface); ok && e.t != nil {
			return res
		}
		if writable {
			// a committing transaction is a durable write of its own: the same crash
			// points as a write batch (before / after it becomes durable)
			nops := len(t.pending)
			if f, ok := hookFns["badger-flush"]; ok && nops > 0 {
				call(fr.i, fr, 0, f, []value{"before"})
			}
			if f, ok := hookFns["badger-flush-dir"]; ok && nops > 0 {
				call(fr.i, fr, 0, f, []value{"before", db.dir})
			}
			db.apply(t.pending)
			if f, ok := hookFns["badger-flush"]; ok && nops > 0 {
				call(fr.i, fr, 0, f, []value{"after"})
			}
			if f, ok := hookFns["badger-flush-dir"]; ok && nops > 0 {
				call(fr.i, fr, 0, f, []value{"after", db.dir})
			}
		}
		return iface{}
	}
	ext("(*"+p+"DB).View", func(fr *frame, a []value) value { return runTxn(fr, a, false) })
	ext("(*"+p+"DB).Update", func(fr *frame, a []value) value { return runTxn(fr, a, true) })
	ext("(*"+p+"Txn).Get", func(fr *frame, a []value) value {
		t := btxns[a[0].(*value)]
		key := a[1].([]value)
		for _, kv := range t.snapshot() {
			if bytesEq(kv.key, key) {
				cell := badgerNew(fr, "Item")
				bitems[cell] = &bitem{kv: kv}
				return tuple{cell, iface{}}
			}
		}
		return tuple{(*value)(nil), badgerErr(fr, "ErrKeyNotFound")}
	})
	ext("(*"+p+"Txn).Set", func(fr *frame, a []value) value {
		t := btxns[a[0].(*value)]
		if !t.writable {
			return badgerErr(fr, "ErrReadOnlyTxn")
		}
		t.pending = append(t.pending, bop{key: copyBytes(a[1].([]value)), val: copyBytes(a[2].([]value))})
		return iface{}
	})
	ext("(*"+p+"Txn).Delete", func(fr *frame, a []value) value {
		t := btxns[a[0].(*value)]
		if !t.writable {
			return badgerErr(fr, "ErrReadOnlyTxn")
		}
		t.pending = append(t.pending, bop{del: true, key: copyBytes(a[1].([]value))})
		return iface{}
	})
	ext("(*"+p+"Item).Key", func(fr *frame, a []value) value {
		item := bitems[a[0].(*value)]
		if item.it == nil {
			return copyBytes(item.kv.key)
		}
		if len(item.it.keybuf) != len(item.kv.key) {
			item.it.keybuf = make([]value, len(item.kv.key))
		}
		copy(item.it.keybuf, item.kv.key)
		return item.it.keybuf
	})
	ext("(*"+p+"Item).KeyCopy", func(fr *frame, a []value) value { return copyBytes(bitems[a[0].(*value)].kv.key) })
	ext("(*"+p+"Item).Value", func(fr *frame, a []value) value {
		it := bitems[a[0].(*value)]
		return call(fr.i, fr, 0, a[1], []value{copyBytes(it.kv.val)})
	})
	ext("(*"+p+"Item).ValueCopy", func(fr *frame, a []value) value {
		return tuple{copyBytes(bitems[a[0].(*value)].kv.val), iface{}}
	})
	ext("(*"+p+"Txn).NewIterator", func(fr *frame, a []value) value {
		t := btxns[a[0].(*value)]
		opt := a[1].(structure)
		ts := fr.fn.Signature.Params().At(0).Type().Underlying().(*types.Struct)
		it := &biter{txn: t}
		for k := 0; k < ts.NumFields(); k++ {
			switch ts.Field(k).Name() {
			case "Reverse":
				it.reverse = opt[k].(bool)
			case "Prefix":
				if pv, ok := opt[k].([]value); ok {
					it.prefix = copyBytes(pv)
				}
			}
		}
		it.order = sortedKVs(t.snapshot())
		cell := badgerNew(fr, "Iterator")
		biters[cell] = it
		return cell
	})
	seek := func(it *biter, key []value) {
		if len(key) == 0 {
			key = it.prefix
		}
		it.valid = false
		if len(key) == 0 {
			if it.reverse {
				it.pos = len(it.order) - 1
			} else {
				it.pos = 0
			}
			it.valid = it.pos >= 0 && it.pos < len(it.order)
			return
		}
		if !it.reverse {
			it.pos = len(it.order)
			for i := range it.order {
				if bytesCmp(it.order[i].key, key) >= 0 {
					it.pos = i
					break
				}
			}
		} else {
			it.pos = -1
			for i := len(it.order) - 1; i >= 0; i-- {
				if bytesCmp(it.order[i].key, key) <= 0 {
					it.pos = i
					break
				}
			}
		}
		it.valid = it.pos >= 0 && it.pos < len(it.order)
	}
	ext("(*"+p+"Iterator).Seek", func(fr *frame, a []value) value {
		key, _ := a[1].([]value)
		seek(biters[a[0].(*value)], key)
		return nil
	})
	ext("(*"+p+"Iterator).Rewind", func(fr *frame, a []value) value { seek(biters[a[0].(*value)], nil); return nil })
	valid := func(it *biter) bool {
		if it.pos < 0 || it.pos >= len(it.order) {
			return false
		}
		return hasPrefixBytes(it.order[it.pos].key, it.prefix)
	}
	ext("(*"+p+"Iterator).Valid", func(fr *frame, a []value) value { return valid(biters[a[0].(*value)]) })
	ext("(*"+p+"Iterator).ValidForPrefix", func(fr *frame, a []value) value {
		it := biters[a[0].(*value)]
		return valid(it) && hasPrefixBytes(it.order[it.pos].key, a[1].([]value))
	})
	ext("(*"+p+"Iterator).Next", func(fr *frame, a []value) value {
		it := biters[a[0].(*value)]
		if it.reverse {
			it.pos--
		} else {
			it.pos++
		}
		return nil
	})
	ext("(*"+p+"Iterator).Item", func(fr *frame, a []value) value {
		it := biters[a[0].(*value)]
		if it.pos < 0 || it.pos >= len(it.order) {
			return (*value)(nil)
		}
		cell := badgerNew(fr, "Item")
		bitems[cell] = &bitem{kv: it.order[it.pos], it: it}
		return cell
	})
	ext("(*"+p+"Iterator).Close", func(fr *frame, a []value) value { return nil })
	ext("(*"+p+"DB).NewWriteBatch", func(fr *frame, a []value) value {
		db := dbOf(a[0])
		cell := badgerNew(fr, "WriteBatch")
		bbatches[cell] = &bbatch{db: db}
		return cell
	})
	ext("(*"+p+"WriteBatch).Set", func(fr *frame, a []value) value {
		b := bbatches[a[0].(*value)]
		b.ops = append(b.ops, bop{key: copyBytes(a[1].([]value)), val: copyBytes(a[2].([]value))})
		return iface{}
	})
	ext("(*"+p+"WriteBatch).Delete", func(fr *frame, a []value) value {
		b := bbatches[a[0].(*value)]
		b.ops = append(b.ops, bop{del: true, key: copyBytes(a[1].([]value))})
		return iface{}
	})
	ext("(*"+p+"WriteBatch).Flush", func(fr *frame, a []value) value {
		b := bbatches[a[0].(*value)]
		if !b.flushed {
			// crash points: a harness may register a "badger-flush" hook that is called
			// before and after a batch becomes durable (it may block forever = the
			// process died there)
			if f, ok := hookFns["badger-flush"]; ok && len(b.ops) > 0 {
				call(fr.i, fr, 0, f, []value{"before"})
			}
			if f, ok := hookFns["badger-flush-dir"]; ok && len(b.ops) > 0 {
				call(fr.i, fr, 0, f, []value{"before", b.db.dir})
			}
			b.db.apply(b.ops)
			b.flushed = true
			nops := len(b.ops)
			b.ops = nil
			if f, ok := hookFns["badger-flush"]; ok && nops > 0 {
				call(fr.i, fr, 0, f, []value{"after"})
			}
			if f, ok := hookFns["badger-flush-dir"]; ok && nops > 0 {
				call(fr.i, fr, 0, f, []value{"after", b.db.dir})
			}
		}
		return iface{}
	})
	ext("(*"+p+"WriteBatch).Cancel", func(fr *frame, a []value) value {
		b := bbatches[a[0].(*value)]
		b.ops = nil
		return nil
	})
	ext("(*"+p+"WriteBatch).Error", func(fr *frame, a []value) value { return iface{} })
	// option builders: keep the struct, ignore the settings
	for _, n := range []string{"WithInMemory", "WithLogger", "WithLoggingLevel", "WithSyncWrites", "WithTruncate", "WithValueLogFileSize"} {
		ext("("+p+"Options)."+n, func(fr *frame, a []value) value { return a[0] })
	}
	optsWithDir := func(fr *frame, a []value) value {
		st := zeroResult(fr.fn).(structure)
		ts := fr.fn.Signature.Results().At(0).Type().Underlying().(*types.Struct)
		for k := 0; k < ts.NumFields(); k++ {
			if ts.Field(k).Name() == "Dir" || ts.Field(k).Name() == "ValueDir" {
				st[k] = a[0]
			}
		}
		return st
	}
	ext(p+"DefaultOptions", optsWithDir)
	ext(p+"LSMOnlyOptions", optsWithDir)
	_ = fmt.Sprint
}

package main

// gosmt: bounded symbolic execution of Go SSA with an SMT solver.
//
//   gosmt run    -dir /repo -pkg ./utils -overlay /verif/harness -entry VerifC19 ...
//   gosmt worker (internal; same flags, talks JSON lines on stdin/stdout)

import (
	"bufio"
	"runtime/pprof"
	"crypto/sha256"
	"encoding/json"
	"flag"
	"fmt"
	"go/token"
	"go/types"
	"io"
	"os"
	"os/exec"
	"path/filepath"
	"sort"
	"strings"
	"time"

	"golang.org/x/tools/go/packages"
	"golang.org/x/tools/go/ssa"
	"golang.org/x/tools/go/ssa/ssautil"
)

type config struct {
	dir       string
	pkg       string
	overlay   string
	entry     string
	workers   int
	solver    string
	timeoutMs int
	maxPaths  int
	maxSecs   int
	out       string
	unwind    int
	bounds    string
	concrete  string
	trace     bool
	smtlog    string
	samples   int
	stopFirst bool
	vioGrace  int
	tags      string
}

func parseFlags(args []string) *config {
	fs := flag.NewFlagSet("gosmt", flag.ExitOnError)
	c := &config{}
	fs.StringVar(&c.dir, "dir", "/repo", "module directory")
	fs.StringVar(&c.pkg, "pkg", "", "package pattern of the harness package")
	fs.StringVar(&c.overlay, "overlay", "", "overlay tree mapped onto -dir")
	fs.StringVar(&c.entry, "entry", "", "harness entry function")
	fs.IntVar(&c.workers, "workers", 8, "worker processes")
	fs.StringVar(&c.solver, "solver", "z3", "z3 | z3-new | cvc5 | cvc5-int")
	fs.IntVar(&c.timeoutMs, "timeout-ms", 20000, "per-query solver timeout")
	fs.IntVar(&c.maxPaths, "max-paths", 0, "stop after this many paths (0 = none)")
	fs.IntVar(&c.maxSecs, "max-seconds", 0, "stop after this many seconds (0 = none)")
	fs.StringVar(&c.out, "out", "", "result JSON file")
	fs.IntVar(&c.unwind, "unwind", 64, "per-frame loop bound")
	fs.StringVar(&c.bounds, "bounds", "", "name=value,... passed to verifrt.Bound")
	fs.StringVar(&c.concrete, "concrete", "", "concrete mode: JSON file with replay vector(s)")
	fs.BoolVar(&c.trace, "trace", false, "trace instructions")
	fs.StringVar(&c.smtlog, "smtlog", "", "write solver input of worker 0 to this file")
	fs.IntVar(&c.samples, "samples", 3, "path samples to keep")
	fs.BoolVar(&c.stopFirst, "stop-first", false, "stop at the first violation")
	fs.IntVar(&c.vioGrace, "vio-grace", 0, "after the first violation keep exploring at most this many seconds (0 = no limit)")
	fs.StringVar(&c.tags, "tags", "verif", "build tags")
	fs.IntVar(&concLimit, "conc-limit", 64, "max distinct values one symbolic integer is concretised to")
	fs.Parse(args)
	return c
}

func main() {
	if len(os.Args) < 2 {
		fmt.Fprintln(os.Stderr, "usage: gosmt run|worker [flags]")
		os.Exit(2)
	}
	cfg := parseFlags(os.Args[2:])
	switch os.Args[1] {
	case "run":
		os.Exit(master(cfg))
	case "worker":
		worker(cfg)
	default:
		fmt.Fprintln(os.Stderr, "unknown command")
		os.Exit(2)
	}
}

// ------------------------------------------------------------------ loading

type program struct {
	prog    *ssa.Program
	pkgs    []*packages.Package
	target  *ssa.Package
	entry   *ssa.Function
	sizes   types.Sizes
	srcHash map[string]string
}

func buildOverlay(cfg *config) map[string][]byte {
	ov := map[string][]byte{}
	if cfg.overlay == "" {
		return ov
	}
	filepath.Walk(cfg.overlay, func(p string, info os.FileInfo, err error) error {
		if err != nil || info.IsDir() || !strings.HasSuffix(p, ".go") {
			return nil
		}
		rel, _ := filepath.Rel(cfg.overlay, p)
		data, err := os.ReadFile(p)
		if err == nil {
			ov[filepath.Join(cfg.dir, rel)] = data
		}
		return nil
	})
	return ov
}

func loadProgram(cfg *config) *program {
	pcfg := &packages.Config{
		Mode: packages.NeedName | packages.NeedFiles | packages.NeedCompiledGoFiles | packages.NeedImports |
			packages.NeedDeps | packages.NeedTypes | packages.NeedSyntax | packages.NeedTypesInfo | packages.NeedTypesSizes | packages.NeedModule,
		Dir:        cfg.dir,
		Overlay:    buildOverlay(cfg),
		Env:        append(os.Environ(), "GOFLAGS=-mod=mod", "GOPROXY=off", "GOSUMDB=off", "GOTOOLCHAIN=local"),
		BuildFlags: []string{"-tags=" + cfg.tags},
	}
	pkgs, err := packages.Load(pcfg, cfg.pkg)
	if err != nil {
		fmt.Fprintln(os.Stderr, "load:", err)
		os.Exit(3)
	}
	if packages.PrintErrors(pkgs) > 0 {
		os.Exit(3)
	}
	prog, spkgs := ssautil.AllPackages(pkgs, ssa.InstantiateGenerics|ssa.SanityCheckFunctions*0)
	if len(spkgs) == 0 || spkgs[0] == nil {
		fmt.Fprintln(os.Stderr, "no SSA package")
		os.Exit(3)
	}
	target := spkgs[0]
	target.Build()
	entry := target.Func(cfg.entry)
	if entry == nil {
		fmt.Fprintf(os.Stderr, "entry %s not found in %s\n", cfg.entry, target.Pkg.Path())
		os.Exit(3)
	}
	return &program{prog: prog, pkgs: pkgs, target: target, entry: entry, sizes: pkgs[0].TypesSizes}
}

func mustDeref(t types.Type) types.Type {
	if p, ok := t.Underlying().(*types.Pointer); ok {
		return p.Elem()
	}
	panic(fmt.Sprintf("mustDeref: %s is not a pointer", t))
}

// packages whose initialisers are executed (everything else keeps zero globals)
func initAllowed(path string) bool {
	if strings.HasPrefix(path, "github.com/marekgalovic/anndb") {
		return true
	}
	switch path {
	case "io", "bytes", "encoding/binary", "context", "encoding/hex", "unicode/utf8", "strconv", "math/bits",
		"github.com/satori/go.uuid",
		"github.com/coreos/etcd/raft", "github.com/coreos/etcd/raft/raftpb",
		"github.com/dgraph-io/badger/v2":
		return true
	}
	return false
}

// ------------------------------------------------------------------ one path

type workItem struct {
	Prefix []Choice `json:"prefix"`
	Replay []string `json:"replay,omitempty"`
	Sample bool     `json:"sample,omitempty"`
}

func parseBounds(s string) map[string]int {
	m := map[string]int{}
	for _, kv := range strings.Split(s, ",") {
		if kv == "" {
			continue
		}
		parts := strings.SplitN(kv, "=", 2)
		if len(parts) == 2 {
			var v int
			fmt.Sscanf(parts[1], "%d", &v)
			m[parts[0]] = v
		}
	}
	return m
}

func runPath(pr *program, cfg *config, solver *Solver, item workItem, seen *interpreter) *PathResult {
	resetTerms()
	symSeq, auxSeq, uuidSeq = 0, 0, 0
	fbitsVars = map[int]*Term{}
	fbitsBack = map[string]symFloat{}
	mapOrderMode = mapOrderInsertion
	syncStates = map[*value]interface{}{}
	resetEnvModels()
	S = newScheduler()
	R = nil
	P = newPath(item.Prefix, solver)
	P.bounds = parseBounds(cfg.bounds)
	P.wantSample = item.Sample
	if item.Replay != nil {
		P.concrete = true
		P.replay = item.Replay
	}
	i := &interpreter{
		prog:      pr.prog,
		globals:   make(map[*ssa.Global]*value),
		sizes:     pr.sizes,
		unwind:    cfg.unwind,
		funcsSeen: seen.funcsSeen,
		stubsSeen: seen.stubsSeen,
	}
	if cfg.trace {
		i.mode |= EnableTracing
	}
	if rt := pr.prog.ImportedPackage("runtime"); rt != nil {
		i.runtimeErrorString = rt.Type("errorString").Object().Type()
	} else {
		i.runtimeErrorString = types.Typ[types.String]
	}
	s0sat, s0unsat, s0unk, s0ns := solver.nSat, solver.nUnsat, solver.nUnknown, solver.timeNs
	solver.Begin()
	end := S.runMain(func() {
		call(i, nil, token.NoPos, pr.target.Func("init"), nil)
		call(i, nil, token.NoPos, pr.entry, nil)
	})
	res := P.res
	res.Status = end.status
	res.Detail = end.detail
	// a model of the path condition, so that the replay vector carries values for
	// the solver variables the path drew (violations that are not assertions)
	withModel := func(label, kind string) {
		have := false
		if !P.concrete {
			for _, in := range P.inputs {
				if in.term != nil {
					solver.define(in.term)
				}
			}
			func() {
				defer func() { recover() }()
				have = solver.Check() == vSat
			}()
		}
		func() {
			defer func() {
				if r := recover(); r != nil {
					P.violation(label, kind, end.detail, false)
				}
			}()
			P.violation(label, kind, end.detail, have)
		}()
	}
	switch end.status {
	case "panic":
		withModel("no-panic", "panic")
	case "deadlock":
		withModel("no-deadlock", "deadlock")
	case "fatal":
		withModel("no-fatal", "fatal")
	case "race":
		withModel("no-data-race", "race")
	case "unwind":
		// the unwinding bound was exceeded: either the bound is too small or the code does
		// not terminate on these inputs. The driver replays the model natively with a
		// time limit: a run that never ends is a violation, one that ends is "bound too small".
		withModel("terminates-within-the-unwinding-bound", "unwind")
	}
	if item.Sample || len(res.Violations) > 0 {
		smp := &PathSample{}
		for k, c := range P.trace {
			kind := ""
			if k < len(P.kinds) {
				kind = P.kinds[k]
			}
			if len(smp.Decisions) < 60 {
				smp.Decisions = append(smp.Decisions, fmt.Sprintf("%s=%d", kind, c.C))
			}
		}
		smp.Inputs = append(smp.Inputs, P.inputs...)
		for k, c := range P.pc {
			if k >= 12 {
				smp.PathCond = append(smp.PathCond, "…")
				break
			}
			smp.PathCond = append(smp.PathCond, c.String())
		}
		smp.Trace = P.tracelog
		// a concrete input vector of this path (model of the path condition) for
		// translator validation: the native build is run on it by the driver
		if end.status == "ok" && !P.concrete && len(res.Violations) == 0 {
			func() {
				defer func() { recover() }()
				for _, in := range P.inputs {
					if in.term != nil {
						solver.define(in.term)
					}
				}
				if solver.Check() == vSat {
					smp.Vector = P.modelInputs()
				}
			}()
		}
		res.Sample = smp
	}
	solver.End()
	res.Siblings = P.siblings
	res.Decisions = len(P.trace)
	res.Sat = solver.nSat - s0sat
	res.Unsat = solver.nUnsat - s0unsat
	res.Unknown += solver.nUnknown - s0unk
	res.SolverNs = solver.timeNs - s0ns
	res.Instrs = i.instrs
	if os.Getenv("GOSMT_TIMING") != "" {
		fmt.Fprintf(os.Stderr, "path: status=%s decisions=%d instrs=%d solver=%.2fs queries=%d\n", res.Status, res.Decisions, i.instrs, float64(res.SolverNs)/1e9, res.Sat+res.Unsat)
	}
	res.Funcs = i.funcsNew
	res.Stubs = i.stubsNew
	return res
}

// ------------------------------------------------------------------ worker

func worker(cfg *config) {
	if pf := os.Getenv("GOSMT_PROF"); pf != "" {
		f, _ := os.Create(pf)
		pprof.StartCPUProfile(f)
		defer pprof.StopCPUProfile()
	}
	pr := loadProgram(cfg)
	solver := NewSolver(cfg.solver, cfg.timeoutMs)
	if cfg.smtlog != "" {
		f, _ := os.Create(cfg.smtlog)
		solver.log = f
	}
	seen := &interpreter{funcsSeen: map[*ssa.Function]bool{}, stubsSeen: map[string]bool{}}
	in := bufio.NewReaderSize(os.Stdin, 1<<20)
	out := bufio.NewWriter(os.Stdout)
	enc := json.NewEncoder(out)
	fmt.Fprintln(out, `{"ready":true}`)
	out.Flush()
	for {
		line, err := in.ReadBytes('\n')
		if len(line) > 0 {
			var item workItem
			if e := json.Unmarshal(line, &item); e != nil {
				fmt.Fprintln(os.Stderr, "worker: bad item:", e)
				os.Exit(4)
			}
			var res *PathResult
			func() {
				defer func() {
					if r := recover(); r != nil {
						res = &PathResult{Status: "engine-error", Detail: fmt.Sprintf("worker crash: %v\n%s", r, stackSnippet())}
						// the solver may be in an unknown state
						solver.Close()
						solver.start()
					}
				}()
				res = runPath(pr, cfg, solver, item, seen)
			}()
			enc.Encode(res)
			out.Flush()
		}
		if err != nil {
			break
		}
	}
	solver.Close()
}

// ------------------------------------------------------------------ master

type Summary struct {
	Entry       string            `json:"entry"`
	Pkg         string            `json:"pkg"`
	Bounds      string            `json:"bounds"`
	Solver      string            `json:"solver"`
	Unwind      int               `json:"unwind"`
	Paths       int               `json:"paths"`
	Status      map[string]int    `json:"status"`
	Decisions   int64             `json:"decisions"`
	Asserts     map[string]int    `json:"asserts"`
	Reached     map[string]int    `json:"reached"`
	CoverSeen   map[string]bool   `json:"cover_seen"`
	Covered     map[string]bool   `json:"covered"`
	CoverWit    map[string][]InputRec `json:"cover_witness"`
	Violations  []Violation       `json:"violations"`
	ViolationN  map[string]int    `json:"violation_counts"`
	Sat         int               `json:"sat"`
	Unsat       int               `json:"unsat"`
	Unknown     int               `json:"unknown"`
	SolverSec   float64           `json:"solver_s"`
	Instrs      int64             `json:"instrs"`
	Funcs       []string          `json:"funcs"`
	FuncHashes  map[string]string `json:"func_hashes,omitempty"`
	Stubs       []string          `json:"stubs"`
	Samples     []*PathSample     `json:"samples"`
	Exhaustive  bool              `json:"exhaustive"`
	StopReason  string            `json:"stop_reason"`
	WallSec     float64           `json:"wall_s"`
	Errors      []string          `json:"errors"`
	Notes       map[string]string `json:"notes"`
	Workers     int               `json:"workers"`
	LoadSec     float64           `json:"load_s"`
	MaxDepth    int               `json:"max_depth"`
	DistinctVio int               `json:"distinct_violations"`
}

type wproc struct {
	cmd *exec.Cmd
	in  io.WriteCloser
	out *bufio.Reader
}

func startWorker(cfg *config, idx int) (*wproc, error) {
	args := []string{"worker"}
	args = append(args, os.Args[2:]...)
	if idx != 0 {
		args = append(args, "-smtlog", "")
	}
	cmd := exec.Command(os.Args[0], args...)
	cmd.Stderr = os.Stderr
	in, _ := cmd.StdinPipe()
	outp, _ := cmd.StdoutPipe()
	if err := cmd.Start(); err != nil {
		return nil, err
	}
	w := &wproc{cmd: cmd, in: in, out: bufio.NewReaderSize(outp, 1<<20)}
	line, err := w.out.ReadString('\n')
	if err != nil || !strings.Contains(line, "ready") {
		return nil, fmt.Errorf("worker %d failed to start: %v %s", idx, err, line)
	}
	return w, nil
}

func violationKey(v Violation) string {
	d := v.Detail
	if len(d) > 160 {
		d = d[:160]
	}
	if v.Kind == "assert" {
		d = ""
	}
	// tags are part of the key: the driver matches known findings by
	// label{tags}, so a violation with new tags must never be dropped as a
	// duplicate of one with other tags
	tags := append([]string(nil), v.Tags...)
	sort.Strings(tags)
	t := ""
	if len(tags) > 0 {
		t = "{" + strings.Join(tags, ",") + "}"
	}
	return v.Label + t + "|" + v.Kind + "|" + d
}

func master(cfg *config) int {
	t0 := time.Now()
	sum := &Summary{Entry: cfg.entry, Pkg: cfg.pkg, Bounds: cfg.bounds, Solver: cfg.solver, Unwind: cfg.unwind,
		Status: map[string]int{}, Asserts: map[string]int{}, Reached: map[string]int{}, CoverSeen: map[string]bool{},
		Covered: map[string]bool{}, ViolationN: map[string]int{}, Notes: map[string]string{}, Workers: cfg.workers}

	var replays [][]string
	if cfg.concrete != "" {
		data, err := os.ReadFile(cfg.concrete)
		if err != nil {
			fmt.Fprintln(os.Stderr, err)
			return 3
		}
		if err := json.Unmarshal(data, &replays); err != nil {
			fmt.Fprintln(os.Stderr, "concrete file:", err)
			return 3
		}
	}

	nw := cfg.workers
	if cfg.concrete != "" && nw > len(replays) {
		nw = len(replays)
	}
	if nw < 1 {
		nw = 1
	}
	// workers are started lazily: loading the program costs seconds of CPU per
	// worker, so small explorations run on few workers
	workers := make([]*wproc, nw)
	w0, err := startWorker(cfg, 0)
	if err != nil {
		fmt.Fprintln(os.Stderr, err)
		return 3
	}
	workers[0] = w0
	started := 1
	starting := 0
	type startMsg struct {
		k   int
		w   *wproc
		err error
	}
	startCh := make(chan startMsg, nw)
	sum.LoadSec = time.Since(t0).Seconds()

	// work queue (LIFO)
	var queue []workItem
	if cfg.concrete != "" {
		for _, r := range replays {
			if r == nil {
				r = []string{}
			}
			queue = append(queue, workItem{Replay: r, Sample: true})
		}
	} else {
		queue = append(queue, workItem{Sample: true})
	}
	type resMsg struct {
		w   int
		res *PathResult
		err error
	}
	results := make(chan resMsg, nw)
	idle := []int{0}
	inflight := 0
	stop := ""
	funcs := map[string]bool{}
	stubs := map[string]bool{}
	vioSeen := map[string]bool{}
	sampleBudget := cfg.samples
	var firstVio time.Time
	dispatch := func(k int, it workItem) {
		inflight++
		go func() {
			data, _ := json.Marshal(it)
			data = append(data, '\n')
			if _, err := workers[k].in.Write(data); err != nil {
				results <- resMsg{k, nil, err}
				return
			}
			line, err := workers[k].out.ReadBytes('\n')
			if err != nil {
				results <- resMsg{k, nil, fmt.Errorf("worker %d died: %v", k, err)}
				return
			}
			var res PathResult
			if e := json.Unmarshal(line, &res); e != nil {
				results <- resMsg{k, nil, e}
				return
			}
			results <- resMsg{k, &res, nil}
		}()
	}
	for {
		for len(idle) > 0 && len(queue) > 0 && stop == "" {
			it := queue[len(queue)-1]
			queue = queue[:len(queue)-1]
			k := idle[len(idle)-1]
			idle = idle[:len(idle)-1]
			if sampleBudget > 0 && (sum.Paths < 40 && sum.Paths%5 == 0 || sum.Paths%97 == 0) {
				it.Sample = true
			}
			dispatch(k, it)
		}
		// grow the pool when there is a backlog
		for started+starting < nw && stop == "" && len(queue) > 2*(started+starting) {
			k := started + starting
			starting++
			go func(k int) {
				w, err := startWorker(cfg, k)
				startCh <- startMsg{k, w, err}
			}(k)
		}
		if inflight == 0 && (starting == 0 || len(queue) == 0 || stop != "") {
			if starting > 0 {
				// drain pending starts so the processes can be reaped
				for starting > 0 {
					sm := <-startCh
					starting--
					if sm.err == nil {
						workers[sm.k] = sm.w
						started++
					}
				}
			}
			if inflight == 0 && (len(queue) == 0 || stop != "") {
				break
			}
			continue
		}
		var m resMsg
		select {
		case sm := <-startCh:
			starting--
			if sm.err != nil {
				sum.Errors = append(sum.Errors, sm.err.Error())
				stop = "worker-failure"
			} else {
				workers[sm.k] = sm.w
				started++
				idle = append(idle, sm.k)
			}
			continue
		case m = <-results:
		}
		inflight--
		if m.err != nil {
			sum.Errors = append(sum.Errors, m.err.Error())
			stop = "worker-failure"
			continue
		}
		idle = append(idle, m.w)
		r := m.res
		sum.Paths++
		sum.Status[r.Status]++
		sum.Decisions += int64(r.Decisions)
		if r.Decisions > sum.MaxDepth {
			sum.MaxDepth = r.Decisions
		}
		for k, v := range r.Asserts {
			sum.Asserts[k] += v
		}
		for k, v := range r.Reached {
			sum.Reached[k] += v
		}
		for k := range r.CoverSeen {
			sum.CoverSeen[k] = true
		}
		for k := range r.Covered {
			sum.Covered[k] = true
		}
		for k, w := range r.CoverWit {
			if sum.CoverWit == nil {
				sum.CoverWit = map[string][]InputRec{}
			}
			if _, ok := sum.CoverWit[k]; !ok {
				sum.CoverWit[k] = w
			}
		}
		for k, v := range r.Notes {
			sum.Notes[k] = v
		}
		sum.Sat += r.Sat
		sum.Unsat += r.Unsat
		sum.Unknown += r.Unknown
		sum.SolverSec += float64(r.SolverNs) / 1e9
		sum.Instrs += r.Instrs
		for _, f := range r.Funcs {
			funcs[f] = true
		}
		for _, f := range r.Stubs {
			stubs[f] = true
		}
		if r.Status == "engine-error" || r.Status == "unwind" {
			msg := r.Status + ": " + r.Detail
			if len(sum.Errors) < 20 {
				sum.Errors = append(sum.Errors, msg)
			}
		}
		for _, v := range r.Violations {
			k := violationKey(v)
			sum.ViolationN[k]++
			if !vioSeen[k] || sum.ViolationN[k] <= 3 {
				vioSeen[k] = true
				if len(sum.Violations) < 600 {
					sum.Violations = append(sum.Violations, v)
				}
			}
			if cfg.stopFirst {
				stop = "first-violation"
			}
		}
		if r.Sample != nil && sampleBudget > 0 && len(r.Violations) == 0 {
			sum.Samples = append(sum.Samples, r.Sample)
			sampleBudget--
		}
		if stop == "" {
			for _, s := range r.Siblings {
				queue = append(queue, workItem{Prefix: s})
			}
		}
		if cfg.maxPaths > 0 && sum.Paths >= cfg.maxPaths && stop == "" && (len(queue) > 0 || inflight > 0) {
			stop = "max-paths"
		}
		if cfg.vioGrace > 0 && len(sum.Violations) > 0 {
			if firstVio.IsZero() {
				firstVio = time.Now()
			} else if time.Since(firstVio).Seconds() > float64(cfg.vioGrace) && stop == "" && (len(queue) > 0 || inflight > 0) {
				stop = "violation-grace"
			}
		}
		if cfg.maxSecs > 0 && time.Since(t0).Seconds() > float64(cfg.maxSecs) && stop == "" && (len(queue) > 0 || inflight > 0) {
			stop = "max-seconds"
		}
	}
	for _, w := range workers {
		if w != nil {
			w.in.Close()
			w.cmd.Wait()
		}
	}
	sum.Workers = started
	sum.Exhaustive = stop == "" && len(queue) == 0
	sum.StopReason = stop
	for f := range funcs {
		sum.Funcs = append(sum.Funcs, f)
	}
	sort.Strings(sum.Funcs)
	for f := range stubs {
		sum.Stubs = append(sum.Stubs, f)
	}
	sort.Strings(sum.Stubs)
	sum.DistinctVio = len(sum.ViolationN)
	sum.WallSec = time.Since(t0).Seconds()
	data, _ := json.MarshalIndent(sum, "", " ")
	if cfg.out != "" {
		os.WriteFile(cfg.out, data, 0644)
	} else {
		os.Stdout.Write(data)
		fmt.Println()
	}
	fmt.Fprintf(os.Stderr, "gosmt %s: paths=%d status=%v violations=%d distinct=%d sat=%d unsat=%d unknown=%d solver=%.1fs wall=%.1fs exhaustive=%v %s\n",
		cfg.entry, sum.Paths, sum.Status, len(sum.Violations), sum.DistinctVio, sum.Sat, sum.Unsat, sum.Unknown, sum.SolverSec, sum.WallSec, sum.Exhaustive, stop)
	for _, e := range sum.Errors {
		if len(e) > 1500 {
			e = e[:1500]
		}
		fmt.Fprintln(os.Stderr, "  error:", e)
	}
	if len(sum.Errors) > 0 || sum.Status["engine-error"] > 0 || sum.Status["unwind"] > 0 {
		return 2
	}
	if len(sum.Violations) > 0 {
		return 1
	}
	if !sum.Exhaustive || sum.Unknown > 0 {
		return 2
	}
	return 0
}

func fileHash(path string) string {
	data, err := os.ReadFile(path)
	if err != nil {
		return ""
	}
	h := sha256.Sum256(data)
	return fmt.Sprintf("%x", h[:8])
}

// Copyright 2013 The Go Authors. All rights reserved.
// Use of this source code is governed by a BSD-style
// license that can be found in the LICENSE file.

// Package ssa/interp defines an interpreter for the SSA
// representation of Go programs.
//
// This interpreter is provided as an adjunct for testing the SSA
// construction algorithm.  Its purpose is to provide a minimal
// metacircular implementation of the dynamic semantics of each SSA
// instruction.  It is not, and will never be, a production-quality Go
// interpreter.
//
// The following is a partial list of Go features that are currently
// unsupported or incomplete in the interpreter.
//
// * Unsafe operations, including all uses of unsafe.Pointer, are
// impossible to support given the "boxed" value representation we
// have chosen.
//
// * The reflect package is only partially implemented.
//
// * The "testing" package is no longer supported because it
// depends on low-level details that change too often.
//
// * "sync/atomic" operations are not atomic due to the "boxed" value
// representation: it is not possible to read, modify and write an
// interface value atomically. As a consequence, Mutexes are currently
// broken.
//
// * recover is only partially implemented.  Also, the interpreter
// makes no attempt to distinguish target panics from interpreter
// crashes.
//
// * the sizes of the int, uint and uintptr types in the target
// program are assumed to be the same as those of the interpreter
// itself.
//
// * all values occupy space, even those of types defined by the spec
// to have zero size, e.g. struct{}.  This can cause asymptotic
// performance degradation.
//
// * os.Exit is implemented using panic, causing deferred functions to
// run.
package main

import (
	"fmt"
	"go/token"
	"go/types"
	"os"
	"runtime"
	"slices"

	"golang.org/x/tools/go/ssa"
)

type continuation int

const (
	kNext continuation = iota
	kReturn
	kJump
)

// Mode is a bitmask of options affecting the interpreter.
type Mode uint

const (
	DisableRecover Mode = 1 << iota // Disable recover() in target programs; show interpreter crash instead.
	EnableTracing                   // Print a trace of all instructions as they are interpreted.
)

type methodSet map[string]*ssa.Function

// State shared between all interpreted goroutines.
type interpreter struct {
	osArgs             []value                // the value of os.Args
	prog               *ssa.Program           // the SSA program
	globals            map[*ssa.Global]*value // addresses of global variables (immutable)
	mode               Mode                   // interpreter options
	runtimeErrorString types.Type             // the runtime.errorString type
	sizes              types.Sizes            // the effective type-sizing function
	unwind             int                    // per-frame block visit bound
	instrs             int64
	funcsSeen          map[*ssa.Function]bool
	funcsNew           []string
	stubsSeen          map[string]bool
	stubsNew           []string
}

func (i *interpreter) noteFunc(fn *ssa.Function) {
	if !i.funcsSeen[fn] {
		i.funcsSeen[fn] = true
		name := fn.String()
		if p := fn.Pos(); p != token.NoPos {
			name += "@" + fn.Prog.Fset.Position(p).Filename
		}
		i.funcsNew = append(i.funcsNew, name)
	}
}

func (i *interpreter) noteStub(name string) {
	if !i.stubsSeen[name] {
		i.stubsSeen[name] = true
		i.stubsNew = append(i.stubsNew, name)
	}
}

type deferred struct {
	fn    value
	args  []value
	instr *ssa.Defer
	tail  *deferred
}

type frame struct {
	i                *interpreter
	caller           *frame
	fn               *ssa.Function
	block, prevBlock *ssa.BasicBlock
	env              map[ssa.Value]value // dynamic values of SSA variables
	locals           []value
	defers           *deferred
	result           value
	panicking        bool
	panic            interface{}
	phitemps         []value // temporaries for parallel phi assignment
	depth            int
	curPos           token.Pos
	visits           map[*ssa.BasicBlock]int
}

func (fr *frame) get(key ssa.Value) value {
	switch key := key.(type) {
	case nil:
		// Hack; simplifies handling of optional attributes
		// such as ssa.Slice.{Low,High}.
		return nil
	case *ssa.Function, *ssa.Builtin:
		return key
	case *ssa.Const:
		return constValue(key)
	case *ssa.Global:
		if r, ok := fr.i.globals[key]; ok {
			return r
		}
		cell := zero(mustDeref(key.Type()))
		fr.i.globals[key] = &cell
		return &cell
	}
	if r, ok := fr.env[key]; ok {
		return r
	}
	panic(fmt.Sprintf("get: no value for %T: %v", key, key.Name()))
}

// runDefer runs a deferred call d.
// It always returns normally, but may set or clear fr.panic.
func (fr *frame) runDefer(d *deferred) {
	var ok bool
	defer func() {
		if !ok {
			// Deferred call created a new state of panic.
			r := recover()
			switch r.(type) {
			case targetPanic, targetRuntimeError:
			default:
				panic(r) // engine condition: not visible to the target
			}
			fr.panicking = true
			fr.panic = r
		}
	}()
	call(fr.i, fr, d.instr.Pos(), d.fn, d.args)
	ok = true
}

// runDefers executes fr's deferred function calls in LIFO order.
//
// On entry, fr.panicking indicates a state of panic; if
// true, fr.panic contains the panic value.
//
// On completion, if a deferred call started a panic, or if no
// deferred call recovered from a previous state of panic, then
// runDefers itself panics after the last deferred call has run.
//
// If there was no initial state of panic, or it was recovered from,
// runDefers returns normally.
func (fr *frame) runDefers() {
	for d := fr.defers; d != nil; d = d.tail {
		fr.runDefer(d)
	}
	fr.defers = nil
	if fr.panicking {
		panic(fr.panic) // new panic, or still panicking
	}
}

// lookupMethod returns the method set for type typ, which may be one
// of the interpreter's fake types.
func lookupMethod(i *interpreter, typ types.Type, meth *types.Func) *ssa.Function {
	return i.prog.LookupMethod(typ, meth.Pkg(), meth.Name())
}

// visitInstr interprets a single ssa.Instruction within the activation
// record frame.  It returns a continuation value indicating where to
// read the next instruction from.
func visitInstr(fr *frame, instr ssa.Instruction) continuation {
	switch instr := instr.(type) {
	case *ssa.DebugRef:
		// no-op

	case *ssa.UnOp:
		if R != nil && instr.Op == token.MUL && !isLocalAlloc(instr.X) {
			if p, ok := fr.get(instr.X).(*value); ok && p != nil {
				raceMem(fr, instr.Type(), p, false)
			}
		}
		fr.env[instr] = unop(instr, fr.get(instr.X))

	case *ssa.BinOp:
		fr.env[instr] = binop(instr.Op, instr.X.Type(), fr.get(instr.X), fr.get(instr.Y))

	case *ssa.Call:
		fn, args := prepareCall(fr, &instr.Call)
		fr.env[instr] = call(fr.i, fr, instr.Pos(), fn, args)

	case *ssa.ChangeInterface:
		fr.env[instr] = fr.get(instr.X)

	case *ssa.ChangeType:
		fr.env[instr] = fr.get(instr.X) // (can't fail)

	case *ssa.Convert:
		fr.env[instr] = conv(instr.Type(), instr.X.Type(), fr.get(instr.X))

	case *ssa.SliceToArrayPointer:
		fr.env[instr] = sliceToArrayPointer(instr.Type(), instr.X.Type(), fr.get(instr.X))

	case *ssa.MakeInterface:
		fr.env[instr] = iface{t: instr.X.Type(), v: fr.get(instr.X)}

	case *ssa.Extract:
		fr.env[instr] = fr.get(instr.Tuple).(tuple)[instr.Index]

	case *ssa.Slice:
		fr.env[instr] = slice(fr.get(instr.X), fr.get(instr.Low), fr.get(instr.High), fr.get(instr.Max))

	case *ssa.Return:
		switch len(instr.Results) {
		case 0:
		case 1:
			fr.result = fr.get(instr.Results[0])
		default:
			var res []value
			for _, r := range instr.Results {
				res = append(res, fr.get(r))
			}
			fr.result = tuple(res)
		}
		fr.block = nil
		return kReturn

	case *ssa.RunDefers:
		fr.runDefers()

	case *ssa.Panic:
		panic(targetPanic{fr.get(instr.X)})

	case *ssa.Send:
		chSend(fr.get(instr.Chan).(*channel), fr.get(instr.X))

	case *ssa.Store:
		addr := fr.get(instr.Addr).(*value)
		if addr == nil {
			panic(targetRuntimeError{"invalid memory address or nil pointer dereference"})
		}
		if R != nil && !isLocalAlloc(instr.Addr) {
			raceMem(fr, mustDeref(instr.Addr.Type()), addr, true)
		}
		store(mustDeref(instr.Addr.Type()), addr, fr.get(instr.Val))

	case *ssa.If:
		succ := 1
		if truth(fr.get(instr.Cond), "if") {
			succ = 0
		}
		fr.prevBlock, fr.block = fr.block, fr.block.Succs[succ]
		return kJump

	case *ssa.Jump:
		fr.prevBlock, fr.block = fr.block, fr.block.Succs[0]
		return kJump

	case *ssa.Defer:
		fn, args := prepareCall(fr, &instr.Call)
		defers := &fr.defers
		if into := fr.get(instr.DeferStack); into != nil {
			defers = into.(**deferred)
		}
		*defers = &deferred{
			fn:    fn,
			args:  args,
			instr: instr,
			tail:  *defers,
		}

	case *ssa.Go:
		fn, args := prepareCall(fr, &instr.Call)
		i := fr.i
		pos := instr.Pos()
		child := S.spawn(fmt.Sprint(instr.Call.Value.Name()), func() {
			call(i, nil, pos, fn, args)
		})
		raceFork(child.id)
		S.switchPoint("go")

	case *ssa.MakeChan:
		fr.env[instr] = newChannel(int(asInt64(fr.get(instr.Size))), instr.Type().Underlying().(*types.Chan).Elem())

	case *ssa.Alloc:
		var addr *value
		if instr.Heap {
			// new
			addr = new(value)
			fr.env[instr] = addr
		} else {
			// local
			addr = fr.env[instr].(*value)
		}
		*addr = zero(mustDeref(instr.Type()))

	case *ssa.MakeSlice:
		capN := asInt64(fr.get(instr.Cap))
		lenN := asInt64(fr.get(instr.Len))
		if lenN < 0 || capN < lenN {
			panic(targetRuntimeError{"makeslice: len out of range"})
		}
		if capN > 1<<22 {
			// natively: "makeslice: cap out of range" panic or an out-of-memory crash
			panic(targetRuntimeError{fmt.Sprintf("makeslice: allocation of %d elements (out of memory / cap out of range)", capN)})
		}
		slice := make([]value, capN)
		tElt := instr.Type().Underlying().(*types.Slice).Elem()
		for i := range slice {
			slice[i] = zero(tElt)
		}
		fr.env[instr] = slice[:lenN]

	case *ssa.MakeMap:
		if instr.Reserve != nil {
			_ = fr.get(instr.Reserve) // size hint: irrelevant (may be symbolic)
		}
		fr.env[instr] = makeMap(instr.Type().Underlying().(*types.Map).Key(), 0)

	case *ssa.Range:
		if R != nil {
			if m, ok := fr.get(instr.X).(*omap); ok {
				raceMap(fr, m, false)
			}
		}
		fr.env[instr] = rangeIter(fr.get(instr.X), instr.X.Type())

	case *ssa.Next:
		if R != nil {
			if it, ok := fr.get(instr.Iter).(*omapIter); ok {
				raceMap(fr, it.m, false)
			}
		}
		fr.env[instr] = fr.get(instr.Iter).(iter).next()

	case *ssa.FieldAddr:
		px := fr.get(instr.X).(*value)
		if px == nil {
			panic(targetRuntimeError{"invalid memory address or nil pointer dereference"})
		}
		fr.env[instr] = &(*px).(structure)[instr.Field]

	case *ssa.Field:
		fr.env[instr] = fr.get(instr.X).(structure)[instr.Field]

	case *ssa.IndexAddr:
		x := fr.get(instr.X)
		idx := asInt64(fr.get(instr.Index))
		switch x := x.(type) {
		case []value:
			if idx < 0 || idx >= int64(len(x)) {
				panic(targetRuntimeError{fmt.Sprintf("index out of range [%d] with length %d", idx, len(x))})
			}
			fr.env[instr] = &x[idx]
		case *value: // *array
			if x == nil {
				panic(targetRuntimeError{"invalid memory address or nil pointer dereference"})
			}
			a := (*x).(array)
			if idx < 0 || idx >= int64(len(a)) {
				panic(targetRuntimeError{fmt.Sprintf("index out of range [%d] with length %d", idx, len(a))})
			}
			fr.env[instr] = &a[idx]
		default:
			panic(fmt.Sprintf("unexpected x type in IndexAddr: %T", x))
		}

	case *ssa.Index:
		x := fr.get(instr.X)
		idx := asInt64(fr.get(instr.Index))

		switch x := x.(type) {
		case array:
			if idx < 0 || idx >= int64(len(x)) {
				panic(targetRuntimeError{fmt.Sprintf("index out of range [%d] with length %d", idx, len(x))})
			}
			fr.env[instr] = x[idx]
		case string:
			if idx < 0 || idx >= int64(len(x)) {
				panic(targetRuntimeError{fmt.Sprintf("index out of range [%d] with length %d", idx, len(x))})
			}
			fr.env[instr] = x[idx]
		default:
			panic(fmt.Sprintf("unexpected x type in Index: %T", x))
		}

	case *ssa.Lookup:
		if R != nil {
			if m, ok := fr.get(instr.X).(*omap); ok {
				raceMap(fr, m, false)
			}
		}
		fr.env[instr] = lookup(instr, fr.get(instr.X), fr.get(instr.Index))

	case *ssa.MapUpdate:
		m := fr.get(instr.Map).(*omap)
		raceMap(fr, m, true)
		m.insert(fr.get(instr.Key), fr.get(instr.Value))

	case *ssa.TypeAssert:
		fr.env[instr] = typeAssert(fr.i, instr, fr.get(instr.X).(iface))

	case *ssa.MakeClosure:
		var bindings []value
		for _, binding := range instr.Bindings {
			bindings = append(bindings, fr.get(binding))
		}
		fr.env[instr] = &closure{instr.Fn.(*ssa.Function), bindings}

	case *ssa.Phi:
		panic("unreachable") // phis are processed at block entry

	case *ssa.Select:
		var cases []selCase
		for _, state := range instr.States {
			c := selCase{ch: fr.get(state.Chan).(*channel), send: state.Dir == types.SendOnly}
			if state.Send != nil {
				c.val = fr.get(state.Send)
			}
			cases = append(cases, c)
		}
		chosen, recv, recvOk := chSelect(cases, instr.Blocking)
		r := tuple{chosen, recvOk}
		for i, st := range instr.States {
			if st.Dir == types.RecvOnly {
				var v value
				if i == chosen && recvOk {
					v = recv
				} else {
					v = zero(st.Chan.Type().Underlying().(*types.Chan).Elem())
				}
				r = append(r, v)
			}
		}
		fr.env[instr] = r

	default:
		panic(fmt.Sprintf("unexpected instruction: %T", instr))
	}

	// if val, ok := instr.(ssa.Value); ok {
	// 	fmt.Println(toString(fr.env[val])) // debugging
	// }

	return kNext
}

// prepareCall determines the function value and argument values for a
// function call in a Call, Go or Defer instruction, performing
// interface method lookup if needed.
func prepareCall(fr *frame, call *ssa.CallCommon) (fn value, args []value) {
	v := fr.get(call.Value)
	if call.Method == nil {
		// Function call.
		fn = v
	} else {
		// Interface method invocation.
		recv := v.(iface)
		if recv.t == nil {
			panic(targetRuntimeError{"invalid memory address or nil pointer dereference (method call on nil interface)"})
		}
		if f := lookupMethod(fr.i, recv.t, call.Method); f == nil {
			// Unreachable in well-typed programs.
			panic(fmt.Sprintf("method set for dynamic type %v does not contain %s", recv.t, call.Method))
		} else {
			fn = f
		}
		args = append(args, recv.v)
	}
	for _, arg := range call.Args {
		args = append(args, fr.get(arg))
	}
	return
}

// call interprets a call to a function (function, builtin or closure)
// fn with arguments args, returning its result.
// callpos is the position of the callsite.
func call(i *interpreter, caller *frame, callpos token.Pos, fn value, args []value) value {
	switch fn := fn.(type) {
	case *ssa.Function:
		if fn == nil {
			panic("call of nil function") // nil of func type
		}
		return callSSA(i, caller, callpos, fn, args, nil)
	case *closure:
		return callSSA(i, caller, callpos, fn.Fn, args, fn.Env)
	case *ssa.Builtin:
		return callBuiltin(caller, callpos, fn, args)
	case *nativeFn:
		return fn.fn(caller, args)
	}
	panic(fmt.Sprintf("cannot call %T", fn))
}

func loc(fset *token.FileSet, pos token.Pos) string {
	if pos == token.NoPos {
		return ""
	}
	return " at " + fset.Position(pos).String()
}

// useRealBody is returned by an external that wants the function's real SSA
// body interpreted instead (e.g. etcd raft.StartNode when the harness did not
// register a node factory).
type useRealBody struct{}

// callSSA interprets a call to function fn with arguments args,
// and lexical environment env, returning its result.
// callpos is the position of the callsite.
func callSSA(i *interpreter, caller *frame, callpos token.Pos, fn *ssa.Function, args []value, env []value) value {
	fr := &frame{
		i:      i,
		caller: caller, // for panic/recover
		fn:     fn,
	}
	if fn.Parent() == nil {
		name := fn.String()
		if fn.Synthetic == "package initializer" && fn.Pkg != nil && !initAllowed(fn.Pkg.Pkg.Path()) {
			return nil
		}
		if ext := lookupExternal(fn, name); ext != nil {
			r := ext(fr, args)
			if _, real := r.(useRealBody); !real {
				i.noteStub(name)
				return r
			}
			// the model declined (no harness hook registered): interpret the real body
		}
		if fn.Blocks == nil && fn.Pkg != nil {
			fn.Pkg.Build()
		}
		if fn.Blocks == nil {
			panic(engineError{"no code for function: " + name})
		}
	} else if fn.Blocks == nil {
		panic(engineError{"no code for anonymous function: " + fn.String()})
	}
	i.noteFunc(fn)

	// generic function body?
	if fn.TypeParams().Len() > 0 && len(fn.TypeArgs()) == 0 {
		panic(engineError{"uninstantiated generic function " + fn.String()})
	}
	if caller != nil {
		fr.depth = caller.depth + 1
		if fr.depth > 400 {
			panic(pathEnd{"unwind", "call depth exceeded in " + fn.String()})
		}
	}

	fr.env = make(map[ssa.Value]value)
	fr.block = fn.Blocks[0]
	fr.locals = make([]value, len(fn.Locals))
	for i, l := range fn.Locals {
		fr.locals[i] = zero(mustDeref(l.Type()))
		fr.env[l] = &fr.locals[i]
	}
	for i, p := range fn.Params {
		fr.env[p] = args[i]
	}
	for i, fv := range fn.FreeVars {
		fr.env[fv] = env[i]
	}
	for fr.block != nil {
		runFrame(fr)
	}
	return fr.result
}

// runFrame executes SSA instructions starting at fr.block and
// continuing until a return, a panic, or a recovered panic.
func runFrame(fr *frame) {
	defer func() {
		if fr.block == nil {
			return // normal return
		}
		r := recover()
		switch r.(type) {
		case targetPanic, targetRuntimeError:
			// a panic of the interpreted program: run its defers
		default:
			// engine conditions (path end, abort, engine error, interpreter
			// crash) are not visible to the target program
			switch rr := r.(type) {
			case engineError:
				if len(rr.msg) < 6000 {
					r = engineError{rr.msg + "\n   in " + fr.fn.String() + loc(fr.fn.Prog.Fset, fr.curPos)}
				}
			case pathEnd, abortPath, exitPanic:
			default:
				st := stackSnippet()
				if len(st) > 2500 {
					st = st[:2500]
				}
				r = engineError{fmt.Sprintf("interpreter crash: %v\n%s\n   in %s%s", rr, st, fr.fn.String(), loc(fr.fn.Prog.Fset, fr.curPos))}
			}
			panic(r)
		}
		fr.panicking = true
		fr.panic = r
		fr.runDefers()
		fr.block = fr.fn.Recover
	}()

	for {
		if fr.i.mode&EnableTracing != 0 {
			fmt.Fprintf(os.Stderr, ".%s %s:\n", fr.fn, fr.block)
		}
		// loop bound: per-frame visits of a block
		if fr.visits == nil {
			fr.visits = map[*ssa.BasicBlock]int{}
		}
		fr.visits[fr.block]++
		if fr.visits[fr.block] > fr.i.unwind {
			panic(pathEnd{"unwind", fmt.Sprintf("loop bound %d exceeded in %s block %d", fr.i.unwind, fr.fn, fr.block.Index)})
		}

		nonPhis := executePhis(fr)
		for _, instr := range nonPhis {
			if fr.i.mode&EnableTracing != 0 {
				if v, ok := instr.(ssa.Value); ok {
					fmt.Fprintln(os.Stderr, "\t", v.Name(), "=", instr)
				} else {
					fmt.Fprintln(os.Stderr, "\t", instr)
				}
			}
			fr.i.instrs++
			if p := instr.Pos(); p != token.NoPos {
				fr.curPos = p
			}
			if visitInstr(fr, instr) == kReturn {
				return
			}
			// Inv: kNext (continue) or kJump (last instr)
		}
	}
}

// executePhis executes the phi-nodes at the start of the current
// block and returns the non-phi instructions.
func executePhis(fr *frame) []ssa.Instruction {
	firstNonPhi := -1
	for i, instr := range fr.block.Instrs {
		if _, ok := instr.(*ssa.Phi); !ok {
			firstNonPhi = i
			break
		}
	}
	// Inv: 0 <= firstNonPhi; every block contains a non-phi.

	nonPhis := fr.block.Instrs[firstNonPhi:]
	if firstNonPhi > 0 {
		phis := fr.block.Instrs[:firstNonPhi]
		predIndex := slices.Index(fr.block.Preds, fr.prevBlock)
		fr.phitemps = fr.phitemps[:0]
		for _, phi := range phis {
			phi := phi.(*ssa.Phi)
			fr.phitemps = append(fr.phitemps, fr.get(phi.Edges[predIndex]))
		}
		for i, phi := range phis {
			fr.env[phi.(*ssa.Phi)] = fr.phitemps[i]
		}
	}
	return nonPhis
}

// doRecover implements the recover() built-in.
func doRecover(caller *frame) value {
	// recover() must be exactly one level beneath the deferred
	// function (two levels beneath the panicking function) to
	// have any effect.  Thus we ignore both "defer recover()" and
	// "defer f() -> g() -> recover()".
	if caller != nil && !caller.panicking &&
		caller.caller != nil && caller.caller.panicking {
		caller.caller.panicking = false
		p := caller.caller.panic
		caller.caller.panic = nil

		switch p := p.(type) {
		case targetPanic:
			// The target program explicitly called panic().
			return p.v
		case targetRuntimeError:
			return iface{caller.i.runtimeErrorString, p.Error()}
		default:
			panic(engineError{fmt.Sprintf("unexpected panic type %T in target call to recover()", p)})
		}
	}
	return iface{}
}

func stackSnippet() string {
	buf := make([]byte, 1<<14)
	n := runtime.Stack(buf, false)
	return string(buf[:n])
}

// Copyright 2013 The Go Authors. All rights reserved.
// Use of this source code is governed by a BSD-style
// license that can be found in the LICENSE file.

package main

// Values
//
// All interpreter values are "boxed" in the empty interface, value.
// The range of possible dynamic types within value are:
//
// - bool
// - numbers (all built-in int/float/complex types are distinguished)
// - string
// - map[value]value --- maps for which  usesBuiltinMap(keyType)
//   *hashmap        --- maps for which !usesBuiltinMap(keyType)
// - chan value
// - []value --- slices
// - iface --- interfaces.
// - structure --- structs.  Fields are ordered and accessed by numeric indices.
// - array --- arrays.
// - *value --- pointers.  Careful: *value is a distinct type from *array etc.
// - *ssa.Function \
//   *ssa.Builtin   } --- functions.  A nil 'func' is always of type *ssa.Function.
//   *closure      /
// - tuple --- as returned by Return, Next, "value,ok" modes, etc.
// - iter --- iterators from 'range' over map or string.
// - bad --- a poison pill for locals that have gone out of scope.
// - rtype -- the interpreter's concrete implementation of reflect.Type
// - **deferred -- the address of a frame's defer stack for a Defer._Stack.
//
// Note that nil is not on this list.
//
// Pay close attention to whether or not the dynamic type is a pointer.
// The compiler cannot help you since value is an empty interface.

import (
	"bytes"
	"fmt"
	"go/types"
	"io"
	"strings"

	"golang.org/x/tools/go/ssa"
)

type value interface{}

type tuple []value

type array []value

type iface struct {
	t types.Type // never an "untyped" type
	v value
}

type structure []value

// For map, array, *array, slice, string or channel.
type iter interface {
	// next returns a Tuple (key, value, ok).
	// key and value are unaliased, e.g. copies of the sequence element.
	next() tuple
}

type closure struct {
	Fn  *ssa.Function
	Env []value
}

type bad struct{}


// nil-tolerant variant of types.Identical.
func sameType(x, y types.Type) bool {
	if x == nil {
		return y == nil
	}
	return y != nil && types.Identical(x, y)
}

// reflect.Value struct values don't have a fixed shape, since the
// payload can be a scalar or an aggregate depending on the instance.
// So store (and load) can't simply use recursion over the shape of the
// rhs value, or the lhs, to copy the value; we need the static type
// information.  (We can't make reflect.Value a new basic data type
// because its "structness" is exposed to Go programs.)

// load returns the value of type T in *addr.
func load(T types.Type, addr *value) value {
	switch T := T.Underlying().(type) {
	case *types.Struct:
		v := (*addr).(structure)
		a := make(structure, len(v))
		for i := range a {
			a[i] = load(T.Field(i).Type(), &v[i])
		}
		return a
	case *types.Array:
		v := (*addr).(array)
		a := make(array, len(v))
		for i := range a {
			a[i] = load(T.Elem(), &v[i])
		}
		return a
	default:
		return *addr
	}
}

// store stores value v of type T into *addr.
func store(T types.Type, addr *value, v value) {
	switch T := T.Underlying().(type) {
	case *types.Struct:
		lhs := (*addr).(structure)
		rhs := v.(structure)
		for i := range lhs {
			store(T.Field(i).Type(), &lhs[i], rhs[i])
		}
	case *types.Array:
		lhs := (*addr).(array)
		rhs := v.(array)
		for i := range lhs {
			store(T.Elem(), &lhs[i], rhs[i])
		}
	default:
		*addr = v
	}
}

// Prints in the style of built-in println.
// (More or less; in gc println is actually a compiler intrinsic and
// can distinguish println(1) from println(interface{}(1)).)
func writeValue(buf *bytes.Buffer, v value) {
	switch v := v.(type) {
	case nil, bool, int, int8, int16, int32, int64, uint, uint8, uint16, uint32, uint64, uintptr, float32, float64, complex64, complex128, string:
		fmt.Fprintf(buf, "%v", v)

	case *omap:
		buf.WriteString("map[")
		for i := range v.keys {
			if i > 0 {
				buf.WriteString(" ")
			}
			writeValue(buf, v.keys[i])
			buf.WriteString(":")
			writeValue(buf, v.vals[i])
		}
		buf.WriteString("]")

	case *channel:
		fmt.Fprintf(buf, "chan#%d", v.id)


	case *value:
		if v == nil {
			buf.WriteString("<nil>")
		} else {
			fmt.Fprintf(buf, "%p", v)
		}

	case iface:
		fmt.Fprintf(buf, "(%s, ", v.t)
		writeValue(buf, v.v)
		buf.WriteString(")")

	case structure:
		buf.WriteString("{")
		for i, e := range v {
			if i > 0 {
				buf.WriteString(" ")
			}
			writeValue(buf, e)
		}
		buf.WriteString("}")

	case array:
		buf.WriteString("[")
		for i, e := range v {
			if i > 0 {
				buf.WriteString(" ")
			}
			writeValue(buf, e)
		}
		buf.WriteString("]")

	case []value:
		buf.WriteString("[")
		for i, e := range v {
			if i > 0 {
				buf.WriteString(" ")
			}
			writeValue(buf, e)
		}
		buf.WriteString("]")

	case *ssa.Function, *ssa.Builtin, *closure:
		fmt.Fprintf(buf, "%p", v) // (an address)

	case symInt:
		buf.WriteString(v.t.String())
	case symBool:
		buf.WriteString(v.t.String())
	case symFloat:
		buf.WriteString(v.t.String())

	case tuple:
		// Unreachable in well-formed Go programs
		buf.WriteString("(")
		for i, e := range v {
			if i > 0 {
				buf.WriteString(", ")
			}
			writeValue(buf, e)
		}
		buf.WriteString(")")

	default:
		fmt.Fprintf(buf, "<%T>", v)
	}
}

// Implements printing of Go values in the style of built-in println.
func toString(v value) string {
	var b bytes.Buffer
	writeValue(&b, v)
	return b.String()
}

// ------------------------------------------------------------------------
// Iterators

type stringIter struct {
	*strings.Reader
	i int
}

func (it *stringIter) next() tuple {
	okv := make(tuple, 3)
	ch, n, err := it.ReadRune()
	ok := err != io.EOF
	okv[0] = ok
	if ok {
		okv[1] = it.i
		okv[2] = ch
	}
	it.i += n
	return okv
}


// fakePointer: unsafe.Pointer(uintptr(n)) - an integer travelling in a
// pointer-typed parameter; never dereferenced.
type fakePointer int64

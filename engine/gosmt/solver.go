package main

// One persistent SMT solver process per worker, driven over stdin/stdout with
// SMT-LIB2. Every path is one (push 1) ... (pop 1) scope; composite terms are
// sent once per scope as define-fun; queries use check-sat-assuming.

import (
	"bufio"
	"fmt"
	"io"
	"math/big"
	"os"
	"os/exec"
	"strings"
	"time"
)

type Solver struct {
	name     string
	argv     []string
	cmd      *exec.Cmd
	in       io.WriteCloser
	out      *bufio.Reader
	defined  map[int]bool
	declared map[string]bool
	inScope  bool
	log      io.Writer

	nSat, nUnsat, nUnknown, nErr int
	timeNs                       int64
	timeoutMs                    int
	scopes                       int
	transcript                   []string // declarations, definitions, assertions of the current scope
	lastLits                     []string
	lastOneShot                  bool
	nOneShot                     int
}

func solverArgv(name string) []string {
	switch name {
	case "z3":
		return []string{"z3", "-in", "-smt2"}
	case "z3-new":
		return []string{"z3-new", "-in", "-smt2"}
	case "cvc5":
		return []string{"cvc5", "--incremental", "--lang=smt2", "--produce-models"}
	case "cvc5-int":
		return []string{"cvc5", "--incremental", "--lang=smt2", "--produce-models", "--solve-bv-as-int=sum"}
	}
	panic("unknown solver " + name)
}

func NewSolver(name string, timeoutMs int) *Solver {
	s := &Solver{name: name, argv: solverArgv(name), timeoutMs: timeoutMs}
	s.start()
	return s
}

func (s *Solver) start() {
	s.cmd = exec.Command(s.argv[0], s.argv[1:]...)
	in, err := s.cmd.StdinPipe()
	if err != nil {
		panic(err)
	}
	out, err := s.cmd.StdoutPipe()
	if err != nil {
		panic(err)
	}
	s.cmd.Stderr = os.Stderr
	if err := s.cmd.Start(); err != nil {
		panic(err)
	}
	s.in = in
	s.out = bufio.NewReaderSize(out, 1<<16)
	s.defined = map[int]bool{}
	s.declared = map[string]bool{}
	s.inScope = false
	s.send("(set-option :produce-models true)")
	inc := s.timeoutMs
	if inc > 4000 {
		inc = 4000 // incremental mode gets a short budget; hard queries are retried one-shot
	}
	if strings.HasPrefix(s.name, "z3") {
		s.send(fmt.Sprintf("(set-option :timeout %d)", inc))
	} else {
		s.send("(set-logic ALL)")
		s.send(fmt.Sprintf("(set-option :tlimit-per %d)", inc))
	}
}

func (s *Solver) Close() {
	if s.cmd != nil {
		s.in.Close()
		s.cmd.Process.Kill()
		s.cmd.Wait()
		s.cmd = nil
	}
}

func (s *Solver) send(line string) {
	if s.log != nil {
		fmt.Fprintln(s.log, line)
	}
	if strings.HasPrefix(line, "(declare-const") || strings.HasPrefix(line, "(define-fun") || strings.HasPrefix(line, "(assert") {
		s.transcript = append(s.transcript, line)
	}
	if _, err := io.WriteString(s.in, line+"\n"); err != nil {
		panic(engineError{"solver write: " + err.Error()})
	}
}

func (s *Solver) readLine() string {
	line, err := s.out.ReadString('\n')
	if err != nil {
		panic(engineError{"solver read: " + err.Error()})
	}
	return strings.TrimSpace(line)
}

// Begin opens a fresh scope for a path.
func (s *Solver) Begin() {
	if s.inScope {
		s.End()
	}
	s.scopes++
	if s.scopes%200 == 0 {
		// restart to bound memory
		s.Close()
		s.start()
	}
	s.send("(push 1)")
	s.transcript = s.transcript[:0]
	s.inScope = true
	s.defined = map[int]bool{}
	s.declared = map[string]bool{}
}

func (s *Solver) End() {
	if s.inScope {
		s.send("(pop 1)")
		s.inScope = false
	}
}

// define makes sure t (and all sub-terms) are known to the solver and returns
// the token referring to it.
func (s *Solver) define(t *Term) string {
	if t.isLeaf() {
		if t.op == "var" && !s.declared[t.name] {
			s.declared[t.name] = true
			s.send(fmt.Sprintf("(declare-const %s %s)", t.name, t.sort))
		}
		return t.ref()
	}
	if s.defined[t.id] {
		return t.ref()
	}
	// iterative post-order to avoid deep recursion
	type fr struct {
		t *Term
		i int
	}
	stack := []fr{{t, 0}}
	for len(stack) > 0 {
		top := &stack[len(stack)-1]
		if top.i < len(top.t.args) {
			a := top.t.args[top.i]
			top.i++
			if a.isLeaf() {
				if a.op == "var" && !s.declared[a.name] {
					s.declared[a.name] = true
					s.send(fmt.Sprintf("(declare-const %s %s)", a.name, a.sort))
				}
			} else if !s.defined[a.id] {
				stack = append(stack, fr{a, 0})
			}
			continue
		}
		if !s.defined[top.t.id] {
			s.defined[top.t.id] = true
			s.send(fmt.Sprintf("(define-fun %s () %s %s)", top.t.ref(), top.t.sort, top.t.body()))
		}
		stack = stack[:len(stack)-1]
	}
	return t.ref()
}

func (s *Solver) Assert(t *Term) {
	if t.isTrue() {
		return
	}
	r := s.define(t)
	s.send("(assert " + r + ")")
}

type Verdict int

const (
	vSat Verdict = iota
	vUnsat
	vUnknown
)

func (v Verdict) String() string { return [...]string{"sat", "unsat", "unknown"}[v] }

// Check asks whether the current assertions plus the given assumptions are
// satisfiable.
func (s *Solver) Check(assumps ...*Term) Verdict {
	var lits []string
	for _, a := range assumps {
		if a.isTrue() {
			continue
		}
		if a.isFalse() {
			return vUnsat
		}
		if a.op == "not" {
			lits = append(lits, "(not "+s.define(a.args[0])+")")
		} else if a.isLeaf() {
			lits = append(lits, s.define(a))
		} else {
			lits = append(lits, s.define(a))
		}
	}
	t0 := time.Now()
	if len(lits) == 0 {
		s.send("(check-sat)")
	} else {
		s.send("(check-sat-assuming (" + strings.Join(lits, " ") + "))")
	}
	res := s.readLine()
	s.lastLits = lits
	s.lastOneShot = false
	if res == "unknown" || res == "timeout" {
		// retry outside incremental mode: a fresh process on the whole scope gets
		// the solver's full preprocessing
		v, _ := s.oneShot(lits, nil)
		s.timeNs += time.Since(t0).Nanoseconds()
		s.lastOneShot = true
		s.nOneShot++
		switch v {
		case vSat:
			s.nSat++
		case vUnsat:
			s.nUnsat++
		default:
			s.nUnknown++
		}
		return v
	}
	s.timeNs += time.Since(t0).Nanoseconds()
	switch res {
	case "sat":
		s.nSat++
		return vSat
	case "unsat":
		s.nUnsat++
		return vUnsat
	}
	s.nErr++
	panic(engineError{"solver said: " + res})
}

// Values returns model values of the given terms after a sat answer.
func (s *Solver) Values(ts []*Term) []modelVal {
	if len(ts) == 0 {
		return nil
	}
	t0v := time.Now()
	defer func() { s.timeNs += time.Since(t0v).Nanoseconds() }()
	var refs []string
	for _, t := range ts {
		refs = append(refs, s.define(t))
	}
	if s.lastOneShot {
		_, txt := s.oneShot(s.lastLits, refs)
		return s.parseValues(txt, ts)
	}
	s.send("(get-value (" + strings.Join(refs, " ") + "))")
	// read a balanced s-expression
	var sb strings.Builder
	depth := 0
	started := false
	for {
		line := s.readLine()
		sb.WriteString(line)
		sb.WriteByte(' ')
		for _, c := range line {
			if c == '(' {
				depth++
				started = true
			} else if c == ')' {
				depth--
			}
		}
		if started && depth <= 0 {
			break
		}
		if !started && line != "" {
			break
		}
	}
	return s.parseValues(sb.String(), ts)
}

// oneShot solves the current scope plus lits in a fresh solver process.
func (s *Solver) oneShot(lits []string, want []string) (Verdict, string) {
	var sb strings.Builder
	sb.WriteString("(set-option :produce-models true)\n")
	if !strings.HasPrefix(s.name, "z3") {
		sb.WriteString("(set-logic ALL)\n")
	}
	for _, l := range s.transcript {
		sb.WriteString(l)
		sb.WriteByte('\n')
	}
	for _, l := range lits {
		sb.WriteString("(assert " + l + ")\n")
	}
	sb.WriteString("(check-sat)\n")
	if len(want) > 0 {
		sb.WriteString("(get-value (" + strings.Join(want, " ") + "))\n")
	}
	argv := append([]string{}, s.argv...)
	if strings.HasPrefix(s.name, "z3") {
		argv = append(argv, fmt.Sprintf("-T:%d", (s.timeoutMs+999)/1000))
	} else {
		// drop --incremental for the one-shot run
		var a2 []string
		for _, a := range argv {
			if a != "--incremental" {
				a2 = append(a2, a)
			}
		}
		argv = append(a2, fmt.Sprintf("--tlimit=%d", s.timeoutMs))
	}
	cmd := exec.Command(argv[0], argv[1:]...)
	cmd.Stdin = strings.NewReader(sb.String())
	out, _ := cmd.Output()
	txt := string(out)
	first := txt
	rest := ""
	if i := strings.IndexByte(txt, '\n'); i >= 0 {
		first, rest = txt[:i], txt[i+1:]
	}
	switch strings.TrimSpace(first) {
	case "sat":
		return vSat, rest
	case "unsat":
		return vUnsat, rest
	}
	return vUnknown, rest
}

func (s *Solver) parseValues(txt string, ts []*Term) []modelVal {
	if strings.HasPrefix(strings.TrimSpace(txt), "(error") {
		panic(engineError{"solver get-value: " + txt})
	}
	sx := parseSexp(txt)
	if sx == nil || len(sx.list) != len(ts) {
		panic(engineError{"solver get-value parse: " + txt})
	}
	out := make([]modelVal, len(ts))
	for i, pair := range sx.list {
		if len(pair.list) != 2 {
			panic(engineError{"solver get-value pair: " + txt})
		}
		out[i] = evalModelSexp(pair.list[1], ts[i].sort)
	}
	return out
}

type modelVal struct {
	sort Sort
	bv   uint64
	b    bool
	rat  *big.Rat
}

func (m modelVal) String() string {
	switch m.sort.k {
	case sBool:
		return fmt.Sprint(m.b)
	case sBV:
		return fmt.Sprintf("0x%x", m.bv)
	default:
		return m.rat.RatString()
	}
}

type sexp struct {
	atom string
	list []*sexp
	isL  bool
}

func parseSexp(s string) *sexp {
	pos := 0
	var parse func() *sexp
	skip := func() {
		for pos < len(s) && (s[pos] == ' ' || s[pos] == '\n' || s[pos] == '\t' || s[pos] == '\r') {
			pos++
		}
	}
	parse = func() *sexp {
		skip()
		if pos >= len(s) {
			return nil
		}
		if s[pos] == '(' {
			pos++
			n := &sexp{isL: true}
			for {
				skip()
				if pos >= len(s) {
					return n
				}
				if s[pos] == ')' {
					pos++
					return n
				}
				c := parse()
				if c == nil {
					return n
				}
				n.list = append(n.list, c)
			}
		}
		st := pos
		for pos < len(s) && s[pos] != ' ' && s[pos] != '(' && s[pos] != ')' && s[pos] != '\n' {
			pos++
		}
		return &sexp{atom: s[st:pos]}
	}
	return parse()
}

func evalModelSexp(x *sexp, sort Sort) modelVal {
	mv := modelVal{sort: sort}
	switch sort.k {
	case sBool:
		mv.b = x.atom == "true"
	case sBV:
		a := x.atom
		if strings.HasPrefix(a, "#x") {
			fmt.Sscanf(a[2:], "%x", &mv.bv)
		} else if strings.HasPrefix(a, "#b") {
			var v uint64
			for _, c := range a[2:] {
				v = v<<1 | uint64(c-'0')
			}
			mv.bv = v
		} else if x.isL && len(x.list) == 3 && x.list[0].atom == "_" && strings.HasPrefix(x.list[1].atom, "bv") {
			fmt.Sscanf(x.list[1].atom[2:], "%d", &mv.bv)
		} else {
			panic(engineError{"bad bv model value " + a})
		}
	default:
		mv.rat = evalRat(x)
	}
	return mv
}

func evalRat(x *sexp) *big.Rat {
	if !x.isL {
		r := new(big.Rat)
		a := strings.TrimSuffix(x.atom, "?")
		if _, ok := r.SetString(a); !ok {
			panic(engineError{"bad numeral " + x.atom})
		}
		return r
	}
	if len(x.list) == 0 {
		panic(engineError{"empty numeral"})
	}
	switch x.list[0].atom {
	case "-":
		if len(x.list) == 2 {
			return new(big.Rat).Neg(evalRat(x.list[1]))
		}
		return new(big.Rat).Sub(evalRat(x.list[1]), evalRat(x.list[2]))
	case "/":
		return new(big.Rat).Quo(evalRat(x.list[1]), evalRat(x.list[2]))
	case "+":
		return new(big.Rat).Add(evalRat(x.list[1]), evalRat(x.list[2]))
	case "*":
		return new(big.Rat).Mul(evalRat(x.list[1]), evalRat(x.list[2]))
	case "to_real":
		return evalRat(x.list[1])
	}
	panic(engineError{"bad numeral expr " + x.list[0].atom})
}

package main

// Path state: decisions, path condition, recorded inputs, obligations.

import (
	"fmt"
	"go/types"
	"os"
	"strconv"
	"sort"
	"strings"
)

type Choice struct {
	C int    `json:"c"`
	V uint64 `json:"v,omitempty"`
	F bool   `json:"f,omitempty"` // forced (no sibling)
}

type InputRec struct {
	Fn   string `json:"fn"`   // verifrt function
	Name string `json:"name"` // label given by the harness
	Kind string `json:"kind"` // int,bool,float,byte...
	term *Term
	Conc string `json:"conc,omitempty"` // concrete value (enumerated decisions / concrete mode)
	Val  string `json:"val,omitempty"`  // model value (filled for violations)
}

type Violation struct {
	Label    string     `json:"label"`
	Kind     string     `json:"kind"` // assert, panic, deadlock, cover...
	Detail   string     `json:"detail"`
	Inputs   []InputRec `json:"inputs"`
	Prefix   []Choice   `json:"prefix"`
	Trace    []string   `json:"trace,omitempty"`
	PathCond string     `json:"path_cond,omitempty"`
	Sched    []int      `json:"sched,omitempty"`
	Tags     []string   `json:"tags,omitempty"`
}

type PathResult struct {
	Status     string            `json:"status"` // ok, infeasible, panic, deadlock, fatal, engine-error, unwind, exit
	Detail     string            `json:"detail,omitempty"`
	Siblings   [][]Choice        `json:"siblings,omitempty"`
	Decisions  int               `json:"decisions"`
	Asserts    map[string]int    `json:"asserts,omitempty"`   // label -> times discharged
	Reached    map[string]int    `json:"reached,omitempty"`   // reach labels
	Covered    map[string]bool   `json:"covered,omitempty"`   // cover labels satisfied on this path
	CoverSeen  map[string]bool   `json:"cover_seen,omitempty"`
	CoverWit   map[string][]InputRec `json:"cover_witness,omitempty"`
	Violations []Violation       `json:"violations,omitempty"`
	Sat        int               `json:"sat"`
	Unsat      int               `json:"unsat"`
	Unknown    int               `json:"unknown"`
	SolverNs   int64             `json:"solver_ns"`
	Instrs     int64             `json:"instrs"`
	Funcs      []string          `json:"funcs,omitempty"` // functions entered (names), first path of a worker only sends new ones
	Stubs      []string          `json:"stubs,omitempty"`
	Sample     *PathSample       `json:"sample,omitempty"`
	Prefix     []Choice          `json:"-"`
	Notes      map[string]string `json:"notes,omitempty"`
}

type PathSample struct {
	Decisions []string   `json:"decisions"`
	Inputs    []InputRec `json:"inputs"`
	PathCond  []string   `json:"path_cond"`
	Trace     []string   `json:"trace,omitempty"`
	Model     []string   `json:"model,omitempty"`
	Vector    []InputRec `json:"vector,omitempty"`
}

// debugging aids: GOSMT_TRACECAP raises the per-path trace limit, GOSMT_TRACEFILTER keeps only matching lines
var traceCap, traceFilter = func() (int, string) {
	n := 400
	if v, err := strconv.Atoi(os.Getenv("GOSMT_TRACECAP")); err == nil && v > 0 {
		n = v
	}
	return n, os.Getenv("GOSMT_TRACEFILTER")
}()

type pathEnd struct {
	status string
	detail string
}

type pathState struct {
	prefix   []Choice
	trace    []Choice
	kinds    []string
	siblings [][]Choice
	solver   *Solver
	inputs   []InputRec
	pc       []*Term // asserted conditions (for samples)
	res      *PathResult
	tracelog []string
	concrete bool     // concrete mode: inputs come from replay vector
	replay   []string // concrete-mode values
	replayAt int
	maxDec   int
	bounds   map[string]int
	sched    []int
	tags     []string
	wantSample bool
	concCache  map[int]uint64 // term id -> value fixed on this path
	condCache  map[int]bool   // cond term id -> side taken on this path
}

var P *pathState

func newPath(prefix []Choice, solver *Solver) *pathState {
	randBudget, randDet = -1, 0 // (verifrt.RandBudget is per path)
	p := &pathState{prefix: prefix, solver: solver}
	p.res = &PathResult{Asserts: map[string]int{}, Reached: map[string]int{}, Covered: map[string]bool{}, CoverSeen: map[string]bool{}, Notes: map[string]string{}}
	p.maxDec = 200000
	p.concCache = map[int]uint64{}
	p.condCache = map[int]bool{}
	return p
}

func (p *pathState) note(kind string) {
	p.kinds = append(p.kinds, kind)
	if len(p.trace) > p.maxDec {
		panic(pathEnd{"unwind", "decision limit exceeded"})
	}
}

// decide makes an enumerated (solver-free) decision among arity alternatives.
func (p *pathState) decide(arity int, kind string) int {
	if arity <= 1 {
		return 0
	}
	if S != nil && S.deterministic && (strings.HasPrefix(kind, "sched:") || kind == "select" || kind == "timer") {
		return 0 // schedule-deterministic mode: first enabled thread / first ready case
	}
	d := len(p.trace)
	if d < len(p.prefix) {
		c := p.prefix[d]
		p.trace = append(p.trace, c)
		p.note(kind)
		if c.C >= arity {
			panic(engineError{fmt.Sprintf("replayed decision %d out of range (arity %d, kind %s)", c.C, arity, kind)})
		}
		return c.C
	}
	for alt := 1; alt < arity; alt++ {
		sib := make([]Choice, d+1)
		copy(sib, p.trace)
		sib[d] = Choice{C: alt}
		p.siblings = append(p.siblings, sib)
	}
	p.trace = append(p.trace, Choice{C: 0})
	p.note(kind)
	return 0
}

func (p *pathState) assertPC(t *Term) {
	p.solver.Assert(t)
	p.pc = append(p.pc, t)
}

// branch forks on a symbolic condition; returns the side taken on this path.
func (p *pathState) branch(cond *Term, kind string) bool {
	if cond.isTrue() {
		return true
	}
	if cond.isFalse() {
		return false
	}
	if p.concrete {
		panic(engineError{"symbolic branch in concrete mode"})
	}
	if side, ok := p.condCache[cond.id]; ok {
		return side
	}
	if cond.op == "not" {
		if side, ok := p.condCache[cond.args[0].id]; ok {
			return !side
		}
	}
	res := p.branch1(cond, kind)
	p.condCache[cond.id] = res
	return res
}

func (p *pathState) branch1(cond *Term, kind string) bool {
	d := len(p.trace)
	if d < len(p.prefix) {
		c := p.prefix[d]
		p.trace = append(p.trace, c)
		p.note(kind)
		if c.C == 0 {
			p.assertPC(cond)
			return true
		}
		p.assertPC(mkNot(cond))
		return false
	}
	vt := p.solver.Check(cond)
	vf := p.solver.Check(mkNot(cond))
	ft, ff := vt != vUnsat, vf != vUnsat
	switch {
	case !ft && !ff:
		panic(pathEnd{"infeasible", "both branch sides unsat"})
	case ft && !ff:
		p.trace = append(p.trace, Choice{C: 0, F: true})
		p.note(kind)
		p.assertPC(cond)
		return true
	case !ft && ff:
		p.trace = append(p.trace, Choice{C: 1, F: true})
		p.note(kind)
		p.assertPC(mkNot(cond))
		return false
	}
	sib := make([]Choice, d+1)
	copy(sib, p.trace)
	sib[d] = Choice{C: 1}
	p.siblings = append(p.siblings, sib)
	p.trace = append(p.trace, Choice{C: 0})
	p.note(kind)
	p.assertPC(cond)
	return true
}

// concretize enumerates the feasible values of a BV term, one per path.
func (p *pathState) concretize(t *Term, kind string) uint64 {
	if t.op == "bvconst" {
		return t.bv
	}
	if p.concrete {
		panic(engineError{"symbolic value in concrete mode"})
	}
	if v, ok := p.concCache[t.id]; ok {
		return v
	}
	v := p.concretize1(t, kind)
	p.concCache[t.id] = v
	return v
}

func (p *pathState) concretize1(t *Term, kind string) uint64 {
	w := t.sort.w
	for n := 0; ; n++ {
		if n > concLimit {
			panic(engineError{fmt.Sprintf("concretize: more than %d feasible values for ", concLimit) + kind})
		}
		d := len(p.trace)
		if d < len(p.prefix) {
			c := p.prefix[d]
			p.trace = append(p.trace, c)
			p.note(kind)
			if c.C == 0 {
				p.assertPC(mkEq(t, mkBV(c.V, w)))
				return c.V
			}
			p.assertPC(mkNot(mkEq(t, mkBV(c.V, w))))
			continue
		}
		v := p.solver.Check()
		if v == vUnsat {
			panic(pathEnd{"infeasible", "concretize: path condition unsat"})
		}
		if v == vUnknown {
			panic(engineError{"concretize: solver unknown"})
		}
		val := p.solver.Values([]*Term{t})[0].bv
		eq := mkEq(t, mkBV(val, w))
		other := p.solver.Check(mkNot(eq))
		if other == vUnsat {
			p.trace = append(p.trace, Choice{C: 0, V: val, F: true})
			p.note(kind)
			p.assertPC(eq)
			return val
		}
		sib := make([]Choice, d+1)
		copy(sib, p.trace)
		sib[d] = Choice{C: 1, V: val}
		p.siblings = append(p.siblings, sib)
		p.trace = append(p.trace, Choice{C: 0, V: val})
		p.note(kind)
		p.assertPC(eq)
		return val
	}
}

// asConcreteInt returns the int64 value of any integer value, concretising
// symbolic ones (forking over feasible values).
func concretizeInt(x value, kind string) value {
	s, ok := x.(symInt)
	if !ok {
		return x
	}
	v := P.concretize(s.t, kind)
	return intFromBits(s.k, v)
}

func (p *pathState) tracef(format string, args ...interface{}) {
	if len(p.tracelog) < traceCap {
		line := fmt.Sprintf(format, args...)
		if traceFilter != "" && !strings.Contains(line, traceFilter) {
			return
		}
		p.tracelog = append(p.tracelog, line)
	}
}

// modelInputs fills InputRec.Val from the current model.
func (p *pathState) modelInputs() []InputRec {
	out := make([]InputRec, len(p.inputs))
	copy(out, p.inputs)
	var ts []*Term
	var idx []int
	for i, in := range out {
		if in.term != nil && !in.term.isConst() {
			ts = append(ts, in.term)
			idx = append(idx, i)
		} else if in.term != nil {
			out[i].Val = constString(in.term)
		}
	}
	if len(ts) > 0 {
		vals := p.solver.Values(ts)
		for j, i := range idx {
			out[i].Val = vals[j].String()
		}
	}
	return out
}

func constString(t *Term) string {
	switch t.op {
	case "bvconst":
		return fmt.Sprintf("0x%x", t.bv)
	case "realconst", "intconst":
		return t.rat.RatString()
	case "true", "false":
		return t.op
	}
	return "?"
}

func (p *pathState) violation(label, kind, detail string, haveModel bool) {
	v := Violation{Label: label, Kind: kind, Detail: detail}
	if haveModel {
		v.Inputs = p.modelInputs()
	} else {
		v.Inputs = append([]InputRec(nil), p.inputs...)
	}
	v.Prefix = append([]Choice(nil), p.trace...)
	v.Trace = append([]string(nil), p.tracelog...)
	v.Sched = append([]int(nil), p.sched...)
	v.Tags = append([]string(nil), p.tags...)
	var sb strings.Builder
	for i, c := range p.pc {
		if i > 0 {
			sb.WriteString(" ∧ ")
		}
		if sb.Len() > 3000 {
			sb.WriteString("…")
			break
		}
		sb.WriteString(c.String())
	}
	v.PathCond = sb.String()
	p.res.Violations = append(p.res.Violations, v)
}

// Obligation: cond must hold for all values on this path.
func (p *pathState) obligation(cond value, label string) {
	p.res.Asserts[label]++
	switch c := cond.(type) {
	case bool:
		if c {
			return
		}
		// concrete false on a feasible path: get a model of the path condition
		have := false
		if !p.concrete {
			for _, in := range p.inputs {
				if in.term != nil {
					p.solver.define(in.term)
				}
			}
			v := p.solver.Check()
			if v == vUnsat {
				panic(pathEnd{"infeasible", "assert on infeasible path"})
			}
			have = v == vSat
			if v == vUnknown {
				p.res.Notes["unknown-final:"+label] = "path condition unknown at concrete-false assert"
			}
		}
		p.violation(label, "assert", "condition is false on this path", have)
		panic(pathEnd{"violation", label})
	case symBool:
		for _, in := range p.inputs {
			if in.term != nil {
				p.solver.define(in.term)
			}
		}
		v := p.solver.Check(mkNot(c.t))
		switch v {
		case vUnsat:
			p.assertPC(c.t) // lemma for the rest of the path
			return
		case vUnknown:
			p.res.Notes["unknown-final:"+label] = "solver unknown on assertion"
			p.res.Unknown++
			p.assertPC(c.t)
			return
		}
		// sat: the model of (pc and not cond) is current; read the inputs from it
		p.violation(label, "assert", "solver found values violating the assertion: "+c.t.String(), true)
		// continue the path under the assumption that the assertion held
		if p.solver.Check(c.t) == vUnsat {
			panic(pathEnd{"violation", label})
		}
		p.assertPC(c.t)
		return
	}
	panic(engineError{fmt.Sprintf("Assert on %T", cond)})
}

func (p *pathState) assume(cond value) {
	switch c := cond.(type) {
	case bool:
		if !c {
			panic(pathEnd{"infeasible", "assume(false)"})
		}
	case symBool:
		p.assertPC(c.t)
		if len(p.trace) >= len(p.prefix) {
			if p.solver.Check() == vUnsat {
				panic(pathEnd{"infeasible", "assume unsat"})
			}
		}
	default:
		panic(engineError{fmt.Sprintf("Assume on %T", cond)})
	}
}

func (p *pathState) cover(cond value, label string) {
	if !p.res.CoverSeen[label] {
		if p.res.CoverWit == nil {
			p.res.CoverWit = map[string][]InputRec{}
		}
		p.res.CoverWit[label] = append([]InputRec(nil), p.inputs...)
	}
	p.res.CoverSeen[label] = true
	switch c := cond.(type) {
	case bool:
		if c {
			p.res.Covered[label] = true
		}
	case symBool:
		if p.res.Covered[label] {
			return
		}
		if p.solver.Check(c.t) == vSat {
			p.res.Covered[label] = true
		}
	}
}

func sortedKeys(m map[string]int) []string {
	var ks []string
	for k := range m {
		ks = append(ks, k)
	}
	sort.Strings(ks)
	return ks
}

func basicKind(t types.Type) types.BasicKind {
	return t.Underlying().(*types.Basic).Kind()
}

// concLimit bounds how many distinct values one symbolic integer may be
// concretised to along one chain of decisions (index, length, count).
var concLimit = 64

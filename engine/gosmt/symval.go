package main

// Symbolic scalar values and the operations on them.

import (
	"fmt"
	"go/token"
	"go/types"
	"math"
	"math/big"
	"unsafe"

	"golang.org/x/tools/go/ssa"
)

// symInt is a machine integer of Go basic kind k whose value is the BV term t.
type symInt struct {
	k types.BasicKind
	t *Term
}

type symBool struct{ t *Term }

// symFloat is a float32/float64 whose (non-NaN, finite) value is the Real
// term t. exact: the value is known to be an integer within [lo,hi] with
// |bounds| < 2^24, so IEEE +,-,*,abs,neg on such values are exact as long as
// the result interval stays inside ±2^24 (checked on every operation).
type symFloat struct {
	k      types.BasicKind
	t      *Term
	exact  bool
	lo, hi int64
}

const exactLimit = 1 << 24

// engineError: the engine cannot faithfully execute something. Ends the path
// as inconclusive; never a property verdict.
type engineError struct{ msg string }

func (e engineError) Error() string { return "engine: " + e.msg }

// targetRuntimeError is a Go run-time panic of the interpreted program.
type targetRuntimeError struct{ msg string }

func (e targetRuntimeError) Error() string { return "runtime error: " + e.msg }

func intInfo(k types.BasicKind) (w int, signed bool) {
	switch k {
	case types.Int, types.Int64:
		return 64, true
	case types.Int8:
		return 8, true
	case types.Int16:
		return 16, true
	case types.Int32:
		return 32, true
	case types.Uint, types.Uint64, types.Uintptr:
		return 64, false
	case types.Uint8:
		return 8, false
	case types.Uint16:
		return 16, false
	case types.Uint32:
		return 32, false
	}
	panic(engineError{fmt.Sprintf("intInfo: not an integer kind %v", k)})
}

func kindOfInt(x value) (types.BasicKind, bool) {
	switch x := x.(type) {
	case int:
		return types.Int, true
	case int8:
		return types.Int8, true
	case int16:
		return types.Int16, true
	case int32:
		return types.Int32, true
	case int64:
		return types.Int64, true
	case uint:
		return types.Uint, true
	case uint8:
		return types.Uint8, true
	case uint16:
		return types.Uint16, true
	case uint32:
		return types.Uint32, true
	case uint64:
		return types.Uint64, true
	case uintptr:
		return types.Uintptr, true
	case symInt:
		return x.k, true
	}
	return 0, false
}

func concreteBits(x value) uint64 {
	switch x := x.(type) {
	case int:
		return uint64(x)
	case int8:
		return uint64(x)
	case int16:
		return uint64(x)
	case int32:
		return uint64(x)
	case int64:
		return uint64(x)
	case uint:
		return uint64(x)
	case uint8:
		return uint64(x)
	case uint16:
		return uint64(x)
	case uint32:
		return uint64(x)
	case uint64:
		return x
	case uintptr:
		return uint64(x)
	}
	panic(engineError{fmt.Sprintf("concreteBits: %T", x)})
}

func intFromBits(k types.BasicKind, v uint64) value {
	switch k {
	case types.Int:
		return int(v)
	case types.Int8:
		return int8(v)
	case types.Int16:
		return int16(v)
	case types.Int32:
		return int32(v)
	case types.Int64:
		return int64(v)
	case types.Uint:
		return uint(v)
	case types.Uint8:
		return uint8(v)
	case types.Uint16:
		return uint16(v)
	case types.Uint32:
		return uint32(v)
	case types.Uint64:
		return v
	case types.Uintptr:
		return uintptr(v)
	}
	panic(engineError{fmt.Sprintf("intFromBits: kind %v", k)})
}

// intTerm returns the BV term of an integer value.
func intTerm(x value) *Term {
	if s, ok := x.(symInt); ok {
		return s.t
	}
	k, ok := kindOfInt(x)
	if !ok {
		panic(engineError{fmt.Sprintf("intTerm: %T", x)})
	}
	w, _ := intInfo(k)
	return mkBV(concreteBits(x), w)
}

// mkIntVal wraps a BV term as a value of kind k, folding constants.
func mkIntVal(k types.BasicKind, t *Term) value {
	if t.op == "bvconst" {
		return intFromBits(k, t.bv)
	}
	return symInt{k, t}
}

func mkBoolVal(t *Term) value {
	if t.isTrue() {
		return true
	}
	if t.isFalse() {
		return false
	}
	return symBool{t}
}

func boolTerm(x value) *Term {
	switch x := x.(type) {
	case bool:
		return mkBool(x)
	case symBool:
		return x.t
	}
	panic(engineError{fmt.Sprintf("boolTerm: %T", x)})
}

func isSym(x value) bool {
	switch x.(type) {
	case symInt, symBool, symFloat:
		return true
	}
	return false
}

func floatKind(x value) (types.BasicKind, bool) {
	switch x := x.(type) {
	case float32:
		return types.Float32, true
	case float64:
		return types.Float64, true
	case symFloat:
		return x.k, true
	}
	return 0, false
}

func toSymFloat(x value) symFloat {
	switch x := x.(type) {
	case symFloat:
		return x
	case float32:
		return constSymFloat(types.Float32, float64(x))
	case float64:
		return constSymFloat(types.Float64, x)
	}
	panic(engineError{fmt.Sprintf("toSymFloat: %T", x)})
}

func constSymFloat(k types.BasicKind, f float64) symFloat {
	if math.IsNaN(f) || math.IsInf(f, 0) {
		panic(engineError{"non-finite concrete float meets symbolic float"})
	}
	s := symFloat{k: k, t: mkRealF(f)}
	if f == math.Trunc(f) && math.Abs(f) < exactLimit {
		s.exact = true
		s.lo, s.hi = int64(f), int64(f)
	}
	return s
}

func mkFloatVal(s symFloat) value {
	if s.t.op == "realconst" {
		f, _ := s.t.rat.Float64()
		if s.k == types.Float32 {
			return float32(f)
		}
		return f
	}
	return s
}

func symFloatBin(op token.Token, x, y symFloat) value {
	k := x.k
	switch op {
	case token.ADD, token.SUB, token.MUL:
		if !(x.exact && y.exact) {
			panic(engineError{fmt.Sprintf("float %s on a symbolic operand outside the exact-integer domain", op)})
		}
		r := symFloat{k: k, exact: true}
		switch op {
		case token.ADD:
			r.t = mkArith("+", x.t, y.t)
			r.lo, r.hi = x.lo+y.lo, x.hi+y.hi
		case token.SUB:
			r.t = mkArith("-", x.t, y.t)
			r.lo, r.hi = x.lo-y.hi, x.hi-y.lo
		case token.MUL:
			r.t = mkArith("*", x.t, y.t)
			c := []int64{x.lo * y.lo, x.lo * y.hi, x.hi * y.lo, x.hi * y.hi}
			r.lo, r.hi = c[0], c[0]
			for _, v := range c {
				if v < r.lo {
					r.lo = v
				}
				if v > r.hi {
					r.hi = v
				}
			}
		}
		if r.lo <= -exactLimit || r.hi >= exactLimit {
			panic(engineError{"float arithmetic leaves the exact-integer domain (|value| >= 2^24)"})
		}
		return mkFloatVal(r)
	case token.QUO:
		panic(engineError{"float division on a symbolic operand"})
	case token.EQL:
		return mkBoolVal(mkEq(x.t, y.t))
	case token.NEQ:
		return mkBoolVal(mkNot(mkEq(x.t, y.t)))
	case token.LSS:
		return mkBoolVal(mkArithCmp("<", x.t, y.t))
	case token.LEQ:
		return mkBoolVal(mkArithCmp("<=", x.t, y.t))
	case token.GTR:
		return mkBoolVal(mkArithCmp(">", x.t, y.t))
	case token.GEQ:
		return mkBoolVal(mkArithCmp(">=", x.t, y.t))
	}
	panic(engineError{fmt.Sprintf("symFloatBin: op %s", op)})
}

func symFloatNeg(x symFloat) value {
	r := symFloat{k: x.k, t: mkArithNeg(x.t), exact: x.exact, lo: -x.hi, hi: -x.lo}
	return mkFloatVal(r)
}

func symFloatAbs(x symFloat) value {
	r := symFloat{k: x.k, t: mkArithAbs(x.t), exact: x.exact}
	if x.exact {
		a, b := x.lo, x.hi
		if a < 0 {
			a = -a
		}
		if b < 0 {
			b = -b
		}
		hi := a
		if b > hi {
			hi = b
		}
		lo := int64(0)
		if x.lo > 0 {
			lo = x.lo
		} else if x.hi < 0 {
			lo = -x.hi
		}
		r.lo, r.hi = lo, hi
	}
	return mkFloatVal(r)
}

// symBinop handles every binary operation with at least one symbolic operand.
func symBinop(op token.Token, t types.Type, x, y value) value {
	// booleans
	if _, ok := x.(symBool); ok || isBoolVal(y) && isBoolVal(x) {
		a, b := boolTerm(x), boolTerm(y)
		switch op {
		case token.EQL:
			return mkBoolVal(mkEq(a, b))
		case token.NEQ:
			return mkBoolVal(mkNot(mkEq(a, b)))
		case token.AND:
			return mkBoolVal(mkAnd(a, b))
		case token.OR:
			return mkBoolVal(mkOr(a, b))
		}
		panic(engineError{fmt.Sprintf("symBinop bool op %s", op)})
	}
	if _, ok := floatKind(x); ok {
		if _, ok2 := floatKind(y); ok2 {
			return symFloatBin(op, toSymFloat(x), toSymFloat(y))
		}
	}
	kx, okx := kindOfInt(x)
	ky, oky := kindOfInt(y)
	if !okx || !oky {
		// composite equality with symbolic parts
		switch op {
		case token.EQL:
			return equalsV(t, x, y)
		case token.NEQ:
			return notV(equalsV(t, x, y))
		}
		panic(engineError{fmt.Sprintf("symBinop: %T %s %T", x, op, y)})
	}
	w, signed := intInfo(kx)
	a := intTerm(x)
	switch op {
	case token.SHL, token.SHR:
		b := shiftCount(y, ky, w)
		switch op {
		case token.SHL:
			return mkIntVal(kx, mkBVBin("bvshl", a, b))
		default:
			if signed {
				return mkIntVal(kx, mkBVBin("bvashr", a, b))
			}
			return mkIntVal(kx, mkBVBin("bvlshr", a, b))
		}
	}
	b := intTerm(y)
	if kx != ky {
		wy, _ := intInfo(ky)
		if wy != w {
			panic(engineError{fmt.Sprintf("symBinop: width mismatch %v %v", kx, ky)})
		}
	}
	switch op {
	case token.ADD:
		return mkIntVal(kx, mkBVBin("bvadd", a, b))
	case token.SUB:
		return mkIntVal(kx, mkBVBin("bvsub", a, b))
	case token.MUL:
		return mkIntVal(kx, mkBVBin("bvmul", a, b))
	case token.QUO, token.REM:
		// division by zero panics
		z := mkEq(b, mkBV(0, w))
		if P.branch(z, "divzero") {
			panic(targetRuntimeError{"integer divide by zero"})
		}
		var o string
		switch {
		case op == token.QUO && signed:
			o = "bvsdiv"
		case op == token.QUO:
			o = "bvudiv"
		case signed:
			o = "bvsrem"
		default:
			o = "bvurem"
		}
		return mkIntVal(kx, mkBVBin(o, a, b))
	case token.AND:
		return mkIntVal(kx, mkBVBin("bvand", a, b))
	case token.OR:
		return mkIntVal(kx, mkBVBin("bvor", a, b))
	case token.XOR:
		return mkIntVal(kx, mkBVBin("bvxor", a, b))
	case token.AND_NOT:
		return mkIntVal(kx, mkBVBin("bvand", a, mkBVNot(b)))
	case token.EQL:
		return mkBoolVal(mkEq(a, b))
	case token.NEQ:
		return mkBoolVal(mkNot(mkEq(a, b)))
	case token.LSS:
		if signed {
			return mkBoolVal(mkBVCmp("bvslt", a, b))
		}
		return mkBoolVal(mkBVCmp("bvult", a, b))
	case token.LEQ:
		if signed {
			return mkBoolVal(mkBVCmp("bvsle", a, b))
		}
		return mkBoolVal(mkBVCmp("bvule", a, b))
	case token.GTR:
		if signed {
			return mkBoolVal(mkBVCmp("bvslt", b, a))
		}
		return mkBoolVal(mkBVCmp("bvult", b, a))
	case token.GEQ:
		if signed {
			return mkBoolVal(mkBVCmp("bvsle", b, a))
		}
		return mkBoolVal(mkBVCmp("bvule", b, a))
	}
	panic(engineError{fmt.Sprintf("symBinop: int op %s", op)})
}

func isBoolVal(x value) bool {
	switch x.(type) {
	case bool, symBool:
		return true
	}
	return false
}

// shiftCount converts shift count y (kind ky) to a BV of width w with Go's
// "count >= width shifts everything out" semantics preserved.
func shiftCount(y value, ky types.BasicKind, w int) *Term {
	wy, signedY := intInfo(ky)
	b := intTerm(y)
	if signedY {
		neg := mkBVCmp("bvslt", b, mkBV(0, wy))
		if !neg.isFalse() {
			if P.branch(neg, "negshift") {
				panic(targetRuntimeError{"negative shift amount"})
			}
		}
	}
	if wy == w {
		return b
	}
	if wy < w {
		return mkZeroExt(b, w-wy)
	}
	// wy > w: saturate
	big := mkBVCmp("bvule", mkBV(uint64(w), wy), b)
	return mkIte(big, mkBV(uint64(w), w), mkExtract(w-1, 0, b))
}

func symUnop(op token.Token, x value) value {
	switch x := x.(type) {
	case symBool:
		if op == token.NOT {
			return mkBoolVal(mkNot(x.t))
		}
	case symInt:
		switch op {
		case token.SUB:
			return mkIntVal(x.k, mkBVNeg(x.t))
		case token.XOR:
			return mkIntVal(x.k, mkBVNot(x.t))
		}
	case symFloat:
		if op == token.SUB {
			return symFloatNeg(x)
		}
	}
	panic(engineError{fmt.Sprintf("symUnop %s %T", op, x)})
}

// symConv converts a symbolic scalar to basic kind dst.
func symConv(dst types.BasicKind, x value) value {
	switch x := x.(type) {
	case symInt:
		sw, ssigned := intInfo(x.k)
		switch dst {
		case types.Float32, types.Float64:
			// integer -> float: exact only for small values; require a provable bound.
			return intToFloat(dst, x)
		case types.String:
			panic(engineError{"string(symbolic integer)"})
		}
		dw, _ := intInfo(dst)
		var t *Term
		switch {
		case dw == sw:
			t = x.t
		case dw < sw:
			t = mkExtract(dw-1, 0, x.t)
		case ssigned:
			t = mkSignExt(x.t, dw-sw)
		default:
			t = mkZeroExt(x.t, dw-sw)
		}
		return mkIntVal(dst, t)
	case symFloat:
		switch dst {
		case types.Float32:
			if x.k == types.Float64 && !x.exact {
				panic(engineError{"float64->float32 of a symbolic value outside the exact-integer domain"})
			}
			x.k = types.Float32
			return x
		case types.Float64:
			x.k = types.Float64
			return x
		}
		if x.exact {
			// float -> integer of an exact integer value
			dw, _ := intInfo(dst)
			return mkIntVal(dst, realIntToBV(x, dw))
		}
		panic(engineError{"float->int conversion of a symbolic float"})
	}
	panic(engineError{fmt.Sprintf("symConv %T", x)})
}

var auxSeq int

// realIntToBV introduces a BV variable equal to the integer-valued real x.t.
func realIntToBV(x symFloat, w int) *Term {
	auxSeq++
	v := mkVar(fmt.Sprintf("aux_f2i_%d", auxSeq), bvSort(w))
	// constrain: signed value of v == x.t, and v within [lo,hi]
	P.solver.Assert(mkEq(mkToReal(bvSignedToInt(v, w)), x.t))
	return v
}

func bvSignedToInt(v *Term, w int) *Term {
	// ite(v <s 0, bv2nat(v) - 2^w, bv2nat(v))
	n := mkBV2Int(v)
	p := new(big.Int).Lsh(big.NewInt(1), uint(w))
	pw := intern(&Term{op: "intconst", rat: new(big.Rat).SetInt(p), sort: intSort})
	return mkIte(mkBVCmp("bvslt", v, mkBV(0, w)), mkArith("-", n, pw), n)
}

func intToFloat(dst types.BasicKind, x symInt) value {
	w, signed := intInfo(x.k)
	// require |x| < 2^24 on this path
	lim := mkBV(exactLimit-1, w)
	var inRange *Term
	if signed {
		inRange = mkAnd(mkBVCmp("bvsle", mkBVNeg(lim), x.t), mkBVCmp("bvsle", x.t, lim))
	} else {
		inRange = mkBVCmp("bvule", x.t, lim)
	}
	if P.solver.Check(mkNot(inRange)) != vUnsat {
		panic(engineError{"int->float conversion of a symbolic integer not provably below 2^24"})
	}
	var it *Term
	if signed {
		it = bvSignedToInt(x.t, w)
	} else {
		it = mkBV2Int(x.t)
	}
	return symFloat{k: dst, t: mkToReal(it), exact: true, lo: -(exactLimit - 1), hi: exactLimit - 1}
}

// equalsV implements == for any comparable values, returning bool or symBool.
func equalsV(t types.Type, x, y value) value {
	switch x := x.(type) {
	case bool, symBool:
		return mkBoolVal(mkEq(boolTerm(x), boolTerm(y)))
	case int, int8, int16, int32, int64, uint, uint8, uint16, uint32, uint64, uintptr, symInt:
		if !isSym(x) && !isSym(y) {
			return concreteBits(x) == concreteBits(y)
		}
		return mkBoolVal(mkEq(intTerm(x), intTerm(y)))
	case float32:
		if yy, ok := y.(float32); ok {
			return x == yy
		}
		return symFloatBin(token.EQL, toSymFloat(x), toSymFloat(y))
	case float64:
		if yy, ok := y.(float64); ok {
			return x == yy
		}
		return symFloatBin(token.EQL, toSymFloat(x), toSymFloat(y))
	case symFloat:
		return symFloatBin(token.EQL, x, toSymFloat(y))
	case complex64:
		return x == y.(complex64)
	case complex128:
		return x == y.(complex128)
	case string:
		return x == y.(string)
	case *value:
		return x == y.(*value)
	case unsafe.Pointer:
		return x == y.(unsafe.Pointer)
	case *channel:
		return x == y.(*channel)
	case structure:
		yy := y.(structure)
		tStruct := t.Underlying().(*types.Struct)
		var acc value = true
		for i, n := 0, tStruct.NumFields(); i < n; i++ {
			if f := tStruct.Field(i); f.Name() != "_" {
				acc = andV(acc, equalsV(f.Type(), x[i], yy[i]))
				if acc == false {
					return false
				}
			}
		}
		return acc
	case array:
		yy := y.(array)
		tElt := t.Underlying().(*types.Array).Elem()
		var acc value = true
		for i, xi := range x {
			acc = andV(acc, equalsV(tElt, xi, yy[i]))
			if acc == false {
				return false
			}
		}
		return acc
	case iface:
		yy := y.(iface)
		if !sameType(x.t, yy.t) {
			return false
		}
		if x.t == nil {
			return true
		}
		if !types.Comparable(x.t) {
			panic(targetRuntimeError{"comparing uncomparable type " + x.t.String()})
		}
		return equalsV(x.t, x.v, yy.v)
	case *ssa.Function, *closure, *ssa.Builtin:
		panic(engineError{"comparing func values"})
	}
	panic(engineError{fmt.Sprintf("equalsV: comparing uncomparable type %s (%T)", t, x)})
}

func andV(a, b value) value {
	if a == true {
		return b
	}
	if b == true {
		return a
	}
	if a == false || b == false {
		return false
	}
	return mkBoolVal(mkAnd(boolTerm(a), boolTerm(b)))
}

func notV(a value) value {
	switch a := a.(type) {
	case bool:
		return !a
	case symBool:
		return mkBoolVal(mkNot(a.t))
	}
	panic(engineError{"notV"})
}

// truth forces a possibly-symbolic bool to a concrete one by branching.
func truth(v value, why string) bool {
	switch v := v.(type) {
	case bool:
		return v
	case symBool:
		return P.branch(v.t, why)
	}
	panic(engineError{fmt.Sprintf("truth: %T", v)})
}

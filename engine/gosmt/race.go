package main

// Happens-before data-race detection over the explored schedules
// (verifrt.RaceDetect(true)).
//
// The baton scheduler runs one interpreted goroutine at a time, so code
// between two scheduling points is atomic in the executor and a missing lock
// around plain memory never changes a result. What can be decided instead is
// the Go memory model's own criterion: two accesses to one memory cell, at
// least one a write, at least one not a sync/atomic operation, that are not
// ordered by happens-before. Every interpreted goroutine carries a vector
// clock; the modelled synchronisation operations (go statement, mutex and
// rwmutex, channel operations and close, WaitGroup, Once, sync.Map, atomics,
// context cancellation) transfer clocks; every load, store, map read/update/
// iteration and slice copy/append on heap memory is checked against the
// cell's last write and reads. Happens-before is OVER-approximated where the
// model is coarse (every channel operation is both acquire and release on the
// channel; read-locks release to later writers and to later readers), so a
// reported pair is unordered under the real rules as well; pairs the
// approximation orders may be missed.
//
// A detected race ends the path with status "race"; the detail names the two
// source lines and access kinds (no goroutine numbers, so that one racing
// pair has one signature whatever the schedule).

import (
	"fmt"
	"go/token"
	"go/types"
	"sort"

	"golang.org/x/tools/go/ssa"
)

type vclock []int32

func (v vclock) get(i int) int32 {
	if i < len(v) {
		return v[i]
	}
	return 0
}

func (v *vclock) join(o vclock) {
	for len(*v) < len(o) {
		*v = append(*v, 0)
	}
	for i, c := range o {
		if c > (*v)[i] {
			(*v)[i] = c
		}
	}
}

func (v vclock) clone() vclock { return append(vclock(nil), v...) }

type raceAccess struct {
	tid    int
	clk    int32
	write  bool
	atomic bool
	where  string
}

type raceShadow struct {
	w  *raceAccess   // last plain write
	rd []*raceAccess // plain reads since (one per thread)
	aw []*raceAccess // atomic writes (one per thread)
	ar []*raceAccess // atomic reads (one per thread)
}

type raceState struct {
	vc     []vclock // per thread
	shadow map[interface{}]*raceShadow
	sync   map[interface{}]*vclock
	checks int
}

// R is non-nil while race detection is enabled on the current path.
var R *raceState

func raceEnable(on bool) {
	if !on {
		R = nil
		return
	}
	R = &raceState{shadow: map[interface{}]*raceShadow{}, sync: map[interface{}]*vclock{}}
}

func (r *raceState) clockOf(tid int) *vclock {
	for len(r.vc) <= tid {
		r.vc = append(r.vc, nil)
	}
	c := &r.vc[tid]
	for len(*c) <= tid {
		*c = append(*c, 0)
	}
	if (*c)[tid] == 0 {
		(*c)[tid] = 1
	}
	return c
}

func raceCur() int {
	if S == nil || S.cur == nil {
		return 0
	}
	return S.cur.id
}

// raceFork: the current goroutine starts child.
func raceFork(child int) {
	if R == nil {
		return
	}
	p := raceCur()
	pc := R.clockOf(p)
	cc := R.clockOf(child)
	cc.join(*pc)
	(*pc)[p]++
}

func (r *raceState) syncVC(key interface{}) *vclock {
	v := r.sync[key]
	if v == nil {
		v = &vclock{}
		r.sync[key] = v
	}
	return v
}

// raceAcquire: the current goroutine observes everything released to key.
func raceAcquire(key interface{}) {
	if R == nil {
		return
	}
	if v := R.sync[key]; v != nil {
		R.clockOf(raceCur()).join(*v)
	}
}

// raceRelease: everything the current goroutine did so far is published to key.
func raceRelease(key interface{}) {
	if R == nil {
		return
	}
	t := raceCur()
	c := R.clockOf(t)
	R.syncVC(key).join(*c)
	(*c)[t]++
}

func raceAcqRel(key interface{}) {
	raceAcquire(key)
	raceRelease(key)
}

type rwReaders struct{ p *value }

func (r *raceState) ordered(a *raceAccess, t int) bool {
	if a == nil || a.tid == t {
		return true
	}
	return a.clk <= r.clockOf(t).get(a.tid)
}

func raceReport(a, b *raceAccess, what string) {
	kind := func(x *raceAccess) string {
		s := "read"
		if x.write {
			s = "write"
		}
		if x.atomic {
			s = "atomic-" + s
		}
		return s
	}
	parts := []string{kind(a) + "@" + a.where, kind(b) + "@" + b.where}
	sort.Strings(parts)
	panic(pathEnd{"race", fmt.Sprintf("%s / %s on %s (not ordered by happens-before)", parts[0], parts[1], what)})
}

func setPerThread(list *[]*raceAccess, a *raceAccess) {
	for i, x := range *list {
		if x.tid == a.tid {
			(*list)[i] = a
			return
		}
	}
	*list = append(*list, a)
}

// raceAccessCell records one access of the current goroutine to key.
func raceAccessCell(key interface{}, write, atomic bool, where func() string, what string) {
	r := R
	if r == nil || S == nil || len(S.threads) <= 1 {
		return
	}
	r.checks++
	t := raceCur()
	s := r.shadow[key]
	if s == nil {
		s = &raceShadow{}
		r.shadow[key] = s
	}
	me := &raceAccess{tid: t, clk: r.clockOf(t).get(t), write: write, atomic: atomic}
	conflict := func(o *raceAccess) {
		if !r.ordered(o, t) {
			me.where = where()
			raceReport(o, me, what)
		}
	}
	// plain write conflicts with everything; plain read and atomic write with
	// plain writes (and atomic write with plain reads); atomic read with plain writes
	conflict(s.w)
	if write {
		for _, o := range s.rd {
			conflict(o)
		}
	}
	if !atomic {
		for _, o := range s.aw {
			conflict(o)
		}
		if write {
			for _, o := range s.ar {
				conflict(o)
			}
		}
	}
	me.where = where()
	switch {
	case write && !atomic:
		s.w = me
		s.rd = s.rd[:0]
	case !write && !atomic:
		setPerThread(&s.rd, me)
	case write && atomic:
		setPerThread(&s.aw, me)
	default:
		setPerThread(&s.ar, me)
	}
}

func raceWhere(fr *frame) func() string {
	return func() string {
		for fr != nil && fr.block == nil && fr.curPos == token.NoPos && fr.caller != nil {
			fr = fr.caller // an external (modelled) function: the call site
		}
		if fr == nil || fr.fn == nil {
			return "?"
		}
		pos := fr.curPos
		if pos == token.NoPos {
			pos = fr.fn.Pos()
		}
		p := fr.fn.Prog.Fset.Position(pos)
		return fmt.Sprintf("%s:%d", shortFile(p.Filename), p.Line)
	}
}

func shortFile(f string) string {
	// last two path elements: package directory and file
	n := 0
	for i := len(f) - 1; i >= 0; i-- {
		if f[i] == '/' {
			n++
			if n == 2 {
				return f[i+1:]
			}
		}
	}
	return f
}

// raceMem walks the leaf cells of a value of type T stored at addr (the same
// recursion as load/store) and records the access on each.
func raceMem(fr *frame, T types.Type, addr *value, write bool) {
	if R == nil || S == nil || len(S.threads) <= 1 || addr == nil {
		return
	}
	switch U := T.Underlying().(type) {
	case *types.Struct:
		if st, ok := (*addr).(structure); ok {
			for i := range st {
				if i < U.NumFields() {
					raceMem(fr, U.Field(i).Type(), &st[i], write)
				}
			}
			return
		}
	case *types.Array:
		if a, ok := (*addr).(array); ok {
			for i := range a {
				raceMem(fr, U.Elem(), &a[i], write)
			}
			return
		}
	}
	raceAccessCell(addr, write, false, raceWhere(fr), "a "+T.String()+" variable")
}

// isLocalAlloc: a non-escaping local (ssa.Alloc with Heap == false) cannot be
// shared between goroutines.
func isLocalAlloc(v ssa.Value) bool {
	a, ok := v.(*ssa.Alloc)
	return ok && !a.Heap
}

func raceMap(fr *frame, m *omap, write bool) {
	if R == nil || m == nil {
		return
	}
	raceAccessCell(m, write, false, raceWhere(fr), "a map")
}

func raceSlice(fr *frame, s []value, T types.Type, write bool) {
	if R == nil || S == nil || len(S.threads) <= 1 {
		return
	}
	for i := range s {
		raceMem(fr, T, &s[i], write)
	}
}

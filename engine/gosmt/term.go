package main

// SMT terms: a small hash-consed DAG with local simplification and SMT-LIB2
// printing. Sorts: Bool, BitVec(w), Real, Int.

import (
	"fmt"
	"math/big"
	"strings"
)

type sortKind int

const (
	sBool sortKind = iota
	sBV
	sReal
	sInt
)

type Sort struct {
	k sortKind
	w int
}

func (s Sort) String() string {
	switch s.k {
	case sBool:
		return "Bool"
	case sBV:
		return fmt.Sprintf("(_ BitVec %d)", s.w)
	case sReal:
		return "Real"
	case sInt:
		return "Int"
	}
	return "?"
}

var (
	boolSort = Sort{sBool, 0}
	realSort = Sort{sReal, 0}
	intSort  = Sort{sInt, 0}
)

func bvSort(w int) Sort { return Sort{sBV, w} }

type Term struct {
	op   string
	args []*Term
	sort Sort
	name string   // var
	bv   uint64   // bvconst (w<=64)
	rat  *big.Rat // realconst / intconst
	i, j int      // extract hi/lo, extend amount
	id   int
	key  string
}

var (
	termTable = map[string]*Term{}
	termSeq   int
)

func resetTerms() {
	termTable = map[string]*Term{}
	termSeq = 0
}

func intern(t *Term) *Term {
	var sb strings.Builder
	sb.WriteString(t.op)
	sb.WriteByte('|')
	sb.WriteString(t.sort.String())
	switch t.op {
	case "var":
		sb.WriteString(t.name)
	case "bvconst":
		fmt.Fprintf(&sb, "%d", t.bv)
	case "realconst", "intconst":
		sb.WriteString(t.rat.String())
	case "extract", "zero_extend", "sign_extend":
		fmt.Fprintf(&sb, "%d,%d", t.i, t.j)
	}
	for _, a := range t.args {
		fmt.Fprintf(&sb, " %d", a.id)
	}
	k := sb.String()
	if e, ok := termTable[k]; ok {
		return e
	}
	termSeq++
	t.id = termSeq
	t.key = k
	termTable[k] = t
	return t
}

func mkVar(name string, s Sort) *Term { return intern(&Term{op: "var", name: name, sort: s}) }

func maskW(w int) uint64 {
	if w >= 64 {
		return ^uint64(0)
	}
	return (uint64(1) << uint(w)) - 1
}

func mkBV(v uint64, w int) *Term {
	return intern(&Term{op: "bvconst", bv: v & maskW(w), sort: bvSort(w)})
}

func mkReal(r *big.Rat) *Term { return intern(&Term{op: "realconst", rat: r, sort: realSort}) }
func mkRealF(f float64) *Term {
	r := new(big.Rat)
	if r.SetFloat64(f) == nil {
		panic(engineError{"non-finite float constant in symbolic term"})
	}
	return mkReal(r)
}
func mkInt(v int64) *Term { return intern(&Term{op: "intconst", rat: new(big.Rat).SetInt64(v), sort: intSort}) }

var (
	tTrue  = intern(&Term{op: "true", sort: boolSort})
	tFalse = intern(&Term{op: "false", sort: boolSort})
)

func mkBool(b bool) *Term {
	// tTrue/tFalse may have been dropped from table on reset; re-intern
	if b {
		return intern(&Term{op: "true", sort: boolSort})
	}
	return intern(&Term{op: "false", sort: boolSort})
}

func (t *Term) isConst() bool {
	switch t.op {
	case "bvconst", "realconst", "intconst", "true", "false":
		return true
	}
	return false
}
func (t *Term) isTrue() bool  { return t.op == "true" }
func (t *Term) isFalse() bool { return t.op == "false" }

func signExt(v uint64, w int) int64 {
	if w >= 64 {
		return int64(v)
	}
	sh := uint(64 - w)
	return int64(v<<sh) >> sh
}

func mkNot(a *Term) *Term {
	switch a.op {
	case "true":
		return mkBool(false)
	case "false":
		return mkBool(true)
	case "not":
		return a.args[0]
	}
	return intern(&Term{op: "not", args: []*Term{a}, sort: boolSort})
}

func mkAnd(as ...*Term) *Term {
	var out []*Term
	for _, a := range as {
		if a.isFalse() {
			return a
		}
		if a.isTrue() {
			continue
		}
		if a.op == "and" {
			out = append(out, a.args...)
		} else {
			out = append(out, a)
		}
	}
	if len(out) == 0 {
		return mkBool(true)
	}
	if len(out) == 1 {
		return out[0]
	}
	return intern(&Term{op: "and", args: out, sort: boolSort})
}

func mkOr(as ...*Term) *Term {
	var out []*Term
	for _, a := range as {
		if a.isTrue() {
			return a
		}
		if a.isFalse() {
			continue
		}
		if a.op == "or" {
			out = append(out, a.args...)
		} else {
			out = append(out, a)
		}
	}
	if len(out) == 0 {
		return mkBool(false)
	}
	if len(out) == 1 {
		return out[0]
	}
	return intern(&Term{op: "or", args: out, sort: boolSort})
}

func mkImplies(a, b *Term) *Term { return mkOr(mkNot(a), b) }

func mkIte(c, a, b *Term) *Term {
	if c.isTrue() {
		return a
	}
	if c.isFalse() {
		return b
	}
	if a == b {
		return a
	}
	if a.sort.k == sBool {
		if a.isTrue() && b.isFalse() {
			return c
		}
		if a.isFalse() && b.isTrue() {
			return mkNot(c)
		}
	}
	return intern(&Term{op: "ite", args: []*Term{c, a, b}, sort: a.sort})
}

func mkEq(a, b *Term) *Term {
	if a == b {
		return mkBool(true)
	}
	if a.isConst() && b.isConst() {
		switch a.op {
		case "bvconst":
			return mkBool(a.bv == b.bv)
		case "realconst", "intconst":
			return mkBool(a.rat.Cmp(b.rat) == 0)
		case "true", "false":
			return mkBool(a.op == b.op)
		}
	}
	if a.sort.k == sBool {
		if a.isTrue() {
			return b
		}
		if b.isTrue() {
			return a
		}
		if a.isFalse() {
			return mkNot(b)
		}
		if b.isFalse() {
			return mkNot(a)
		}
	}
	if a.sort != b.sort {
		panic(engineError{fmt.Sprintf("mkEq sort mismatch %v %v", a.sort, b.sort)})
	}
	if a.id > b.id {
		a, b = b, a
	}
	return intern(&Term{op: "=", args: []*Term{a, b}, sort: boolSort})
}

// bit-vector operations -------------------------------------------------

func bvFold(op string, w int, x, y uint64) (uint64, bool) {
	m := maskW(w)
	switch op {
	case "bvadd":
		return (x + y) & m, true
	case "bvsub":
		return (x - y) & m, true
	case "bvmul":
		return (x * y) & m, true
	case "bvand":
		return x & y, true
	case "bvor":
		return x | y, true
	case "bvxor":
		return x ^ y, true
	case "bvudiv":
		if y == 0 {
			return m, true
		}
		return x / y, true
	case "bvurem":
		if y == 0 {
			return x, true
		}
		return x % y, true
	case "bvshl":
		if y >= uint64(w) {
			return 0, true
		}
		return (x << y) & m, true
	case "bvlshr":
		if y >= uint64(w) {
			return 0, true
		}
		return x >> y, true
	case "bvashr":
		sx := signExt(x, w)
		if y >= uint64(w) {
			y = uint64(w - 1)
		}
		return uint64(sx>>y) & m, true
	case "bvsdiv":
		sx, sy := signExt(x, w), signExt(y, w)
		if sy == 0 {
			if sx < 0 {
				return 1, true
			}
			return m, true
		}
		if sy == -1 {
			return uint64(-sx) & m, true
		}
		return uint64(sx/sy) & m, true
	case "bvsrem":
		sx, sy := signExt(x, w), signExt(y, w)
		if sy == 0 {
			return x, true
		}
		if sy == -1 {
			return 0, true
		}
		return uint64(sx%sy) & m, true
	}
	return 0, false
}

func mkBVBin(op string, a, b *Term) *Term {
	if a.sort != b.sort || a.sort.k != sBV {
		panic(engineError{fmt.Sprintf("mkBVBin %s sort mismatch %v %v", op, a.sort, b.sort)})
	}
	w := a.sort.w
	if a.op == "bvconst" && b.op == "bvconst" {
		if v, ok := bvFold(op, w, a.bv, b.bv); ok {
			return mkBV(v, w)
		}
	}
	// distribute over ite-trees with constant leaves (e.g. the result of
	// bits.Len): keeps division/multiplication by constants out of the solver
	if b.op == "bvconst" && constLeafIte(a, 80) {
		return mapIteLeaves(a, func(l *Term) *Term { return mkBVBin(op, l, b) })
	}
	if a.op == "bvconst" && constLeafIte(b, 80) {
		return mapIteLeaves(b, func(l *Term) *Term { return mkBVBin(op, a, l) })
	}
	// identities
	switch op {
	case "bvadd", "bvor", "bvxor":
		if a.op == "bvconst" && a.bv == 0 {
			return b
		}
		if b.op == "bvconst" && b.bv == 0 {
			return a
		}
	case "bvsub", "bvshl", "bvlshr", "bvashr":
		if b.op == "bvconst" && b.bv == 0 {
			return a
		}
	case "bvand":
		if a.op == "bvconst" && a.bv == 0 {
			return a
		}
		if b.op == "bvconst" && b.bv == 0 {
			return b
		}
		if a.op == "bvconst" && a.bv == maskW(w) {
			return b
		}
		if b.op == "bvconst" && b.bv == maskW(w) {
			return a
		}
	case "bvmul":
		if a.op == "bvconst" && a.bv == 1 {
			return b
		}
		if b.op == "bvconst" && b.bv == 1 {
			return a
		}
	}
	// shifts by constant multiples of 8 on concat/extend structure: handled by
	// the byte-level helpers below where it matters.
	if op == "bvor" {
		if r := tryOrConcat(a, b); r != nil {
			return r
		}
	}
	if op == "bvshl" && b.op == "bvconst" && b.bv < uint64(w) {
		// x << c == concat(extract(w-1-c,0,x), 0_c)
		c := int(b.bv)
		return mkConcat(mkExtract(w-1-c, 0, a), mkBV(0, c))
	}
	if op == "bvlshr" && b.op == "bvconst" && b.bv < uint64(w) {
		c := int(b.bv)
		return mkConcat(mkBV(0, c), mkExtract(w-1, c, a))
	}
	return intern(&Term{op: op, args: []*Term{a, b}, sort: a.sort})
}

// tryOrConcat simplifies (bvor a b) when a and b have disjoint known-zero
// regions expressed as concat with zero constants: the typical result of
// uint64(b0) | uint64(b1)<<8 | ...
func tryOrConcat(a, b *Term) *Term {
	pa, oka := concatParts(a)
	pb, okb := concatParts(b)
	if !oka || !okb {
		return nil
	}
	// split both to common boundaries
	w := a.sort.w
	bounds := map[int]bool{0: true, w: true}
	off := w
	for _, p := range pa {
		off -= p.sort.w
		bounds[off] = true
	}
	off = w
	for _, p := range pb {
		off -= p.sort.w
		bounds[off] = true
	}
	var bl []int
	for i := w; i >= 0; i-- {
		if bounds[i] {
			bl = append(bl, i)
		}
	}
	var parts []*Term
	for i := 0; i+1 < len(bl); i++ {
		hi, lo := bl[i]-1, bl[i+1]
		xa := mkExtract(hi, lo, a)
		xb := mkExtract(hi, lo, b)
		if xa.op == "bvconst" && xa.bv == 0 {
			parts = append(parts, xb)
		} else if xb.op == "bvconst" && xb.bv == 0 {
			parts = append(parts, xa)
		} else {
			return nil
		}
	}
	return mkConcat(parts...)
}

func concatParts(t *Term) ([]*Term, bool) {
	switch t.op {
	case "concat":
		return t.args, true
	case "zero_extend":
		return []*Term{mkBV(0, t.i), t.args[0]}, true
	case "bvconst":
		if t.bv == 0 {
			return []*Term{t}, true
		}
	}
	return nil, false
}

func mkBVNot(a *Term) *Term {
	if a.op == "bvconst" {
		return mkBV(^a.bv, a.sort.w)
	}
	return intern(&Term{op: "bvnot", args: []*Term{a}, sort: a.sort})
}

func mkBVNeg(a *Term) *Term {
	if a.op == "bvconst" {
		return mkBV(-a.bv, a.sort.w)
	}
	return intern(&Term{op: "bvneg", args: []*Term{a}, sort: a.sort})
}

func mkBVCmp(op string, a, b *Term) *Term {
	if a.sort != b.sort {
		panic(engineError{fmt.Sprintf("mkBVCmp %s sort mismatch %v %v", op, a.sort, b.sort)})
	}
	w := a.sort.w
	if a.op == "bvconst" && b.op == "bvconst" {
		switch op {
		case "bvult":
			return mkBool(a.bv < b.bv)
		case "bvule":
			return mkBool(a.bv <= b.bv)
		case "bvslt":
			return mkBool(signExt(a.bv, w) < signExt(b.bv, w))
		case "bvsle":
			return mkBool(signExt(a.bv, w) <= signExt(b.bv, w))
		}
	}
	if a == b {
		return mkBool(op == "bvule" || op == "bvsle")
	}
	return intern(&Term{op: op, args: []*Term{a, b}, sort: boolSort})
}

func mkExtract(hi, lo int, a *Term) *Term {
	w := a.sort.w
	if lo == 0 && hi == w-1 {
		return a
	}
	if hi < lo || hi >= w || lo < 0 {
		panic(engineError{fmt.Sprintf("bad extract %d %d of width %d", hi, lo, w)})
	}
	nw := hi - lo + 1
	switch a.op {
	case "bvconst":
		return mkBV(a.bv>>uint(lo), nw)
	case "extract":
		return mkExtract(hi+a.j, lo+a.j, a.args[0])
	case "zero_extend":
		iw := a.args[0].sort.w
		if hi < iw {
			return mkExtract(hi, lo, a.args[0])
		}
		if lo >= iw {
			return mkBV(0, nw)
		}
		return mkConcat(mkBV(0, hi-iw+1), mkExtract(iw-1, lo, a.args[0]))
	case "sign_extend":
		iw := a.args[0].sort.w
		if hi < iw {
			return mkExtract(hi, lo, a.args[0])
		}
	case "concat":
		// locate parts
		off := w
		var parts []*Term
		for _, p := range a.args {
			phi := off - 1
			plo := off - p.sort.w
			off = plo
			if phi < lo || plo > hi {
				continue
			}
			h := hi
			if phi < h {
				h = phi
			}
			l := lo
			if plo > l {
				l = plo
			}
			parts = append(parts, mkExtract(h-plo, l-plo, p))
		}
		return mkConcat(parts...)
	case "bvand", "bvor", "bvxor":
		return mkBVBin(a.op, mkExtract(hi, lo, a.args[0]), mkExtract(hi, lo, a.args[1]))
	}
	return intern(&Term{op: "extract", args: []*Term{a}, i: hi, j: lo, sort: bvSort(nw)})
}

func mkConcat(parts ...*Term) *Term {
	// flatten and merge
	var flat []*Term
	for _, p := range parts {
		if p.op == "concat" {
			flat = append(flat, p.args...)
		} else {
			flat = append(flat, p)
		}
	}
	var out []*Term
	for _, p := range flat {
		if len(out) > 0 {
			q := out[len(out)-1]
			if q.op == "bvconst" && p.op == "bvconst" && q.sort.w+p.sort.w <= 64 {
				out[len(out)-1] = mkBV(q.bv<<uint(p.sort.w)|p.bv, q.sort.w+p.sort.w)
				continue
			}
			if q.op == "extract" && p.op == "extract" && q.args[0] == p.args[0] && q.j == p.i+1 {
				out[len(out)-1] = mkExtract(q.i, p.j, p.args[0])
				continue
			}
		}
		out = append(out, p)
	}
	if len(out) == 1 {
		return out[0]
	}
	w := 0
	for _, p := range out {
		w += p.sort.w
	}
	return intern(&Term{op: "concat", args: out, sort: bvSort(w)})
}

func mkZeroExt(a *Term, by int) *Term {
	if by == 0 {
		return a
	}
	if a.op == "bvconst" {
		return mkBV(a.bv, a.sort.w+by)
	}
	if a.op == "zero_extend" {
		return mkZeroExt(a.args[0], by+a.i)
	}
	return intern(&Term{op: "zero_extend", args: []*Term{a}, i: by, sort: bvSort(a.sort.w + by)})
}

func mkSignExt(a *Term, by int) *Term {
	if by == 0 {
		return a
	}
	if a.op == "bvconst" {
		return mkBV(uint64(signExt(a.bv, a.sort.w)), a.sort.w+by)
	}
	return intern(&Term{op: "sign_extend", args: []*Term{a}, i: by, sort: bvSort(a.sort.w + by)})
}

// arithmetic over Real / Int --------------------------------------------------

func mkArith(op string, a, b *Term) *Term {
	if a.sort != b.sort {
		if a.sort.k == sInt && b.sort.k == sReal {
			a = mkToReal(a)
		} else if a.sort.k == sReal && b.sort.k == sInt {
			b = mkToReal(b)
		} else {
			panic(engineError{fmt.Sprintf("mkArith %s sort mismatch", op)})
		}
	}
	if a.isConst() && b.isConst() {
		r := new(big.Rat)
		switch op {
		case "+":
			r.Add(a.rat, b.rat)
		case "-":
			r.Sub(a.rat, b.rat)
		case "*":
			r.Mul(a.rat, b.rat)
		default:
			r = nil
		}
		if r != nil {
			return intern(&Term{op: a.op, rat: r, sort: a.sort})
		}
	}
	return intern(&Term{op: op, args: []*Term{a, b}, sort: a.sort})
}

func mkArithNeg(a *Term) *Term {
	if a.isConst() {
		return intern(&Term{op: a.op, rat: new(big.Rat).Neg(a.rat), sort: a.sort})
	}
	return intern(&Term{op: "neg", args: []*Term{a}, sort: a.sort})
}

func mkArithAbs(a *Term) *Term {
	if a.isConst() {
		return intern(&Term{op: a.op, rat: new(big.Rat).Abs(a.rat), sort: a.sort})
	}
	zero := mkReal(new(big.Rat))
	if a.sort.k == sInt {
		zero = mkInt(0)
	}
	return mkIte(mkArithCmp("<", a, zero), mkArithNeg(a), a)
}

func mkArithCmp(op string, a, b *Term) *Term {
	if a.sort != b.sort {
		if a.sort.k == sInt && b.sort.k == sReal {
			a = mkToReal(a)
		} else if a.sort.k == sReal && b.sort.k == sInt {
			b = mkToReal(b)
		} else {
			panic(engineError{fmt.Sprintf("mkArithCmp %s sort mismatch", op)})
		}
	}
	if a.isConst() && b.isConst() {
		c := a.rat.Cmp(b.rat)
		switch op {
		case "<":
			return mkBool(c < 0)
		case "<=":
			return mkBool(c <= 0)
		case ">":
			return mkBool(c > 0)
		case ">=":
			return mkBool(c >= 0)
		}
	}
	if a == b {
		return mkBool(op == "<=" || op == ">=")
	}
	return intern(&Term{op: op, args: []*Term{a, b}, sort: boolSort})
}

func mkToReal(a *Term) *Term {
	if a.sort.k == sReal {
		return a
	}
	if a.op == "intconst" {
		return mkReal(a.rat)
	}
	return intern(&Term{op: "to_real", args: []*Term{a}, sort: realSort})
}

// bv2nat-ish: unsigned value of a BV as Int.
func mkBV2Int(a *Term) *Term {
	if a.op == "bvconst" {
		return intern(&Term{op: "intconst", rat: new(big.Rat).SetInt(new(big.Int).SetUint64(a.bv)), sort: intSort})
	}
	return intern(&Term{op: "bv2nat", args: []*Term{a}, sort: intSort})
}

// printing -----------------------------------------------------------------

func ratString(r *big.Rat, real bool) string {
	neg := r.Sign() < 0
	a := new(big.Rat).Abs(r)
	var s string
	if a.IsInt() {
		s = a.Num().String()
		if real {
			s += ".0"
		}
	} else {
		s = fmt.Sprintf("(/ %s.0 %s.0)", a.Num().String(), a.Denom().String())
	}
	if neg {
		return "(- " + s + ")"
	}
	return s
}

// ref returns the token by which a term is referred to in other terms.
func (t *Term) ref() string {
	switch t.op {
	case "var":
		return t.name
	case "bvconst":
		w := t.sort.w
		if w%4 == 0 {
			return fmt.Sprintf("#x%0*x", w/4, t.bv)
		}
		return fmt.Sprintf("#b%0*b", w, t.bv)
	case "realconst":
		return ratString(t.rat, true)
	case "intconst":
		return ratString(t.rat, false)
	case "true", "false":
		return t.op
	}
	return fmt.Sprintf("t%d", t.id)
}

// body returns the SMT-LIB expression of a composite term using refs of children.
func (t *Term) body() string {
	var sb strings.Builder
	switch t.op {
	case "extract":
		fmt.Fprintf(&sb, "((_ extract %d %d) %s)", t.i, t.j, t.args[0].ref())
		return sb.String()
	case "zero_extend", "sign_extend":
		fmt.Fprintf(&sb, "((_ %s %d) %s)", t.op, t.i, t.args[0].ref())
		return sb.String()
	case "neg":
		return "(- " + t.args[0].ref() + ")"
	}
	sb.WriteByte('(')
	sb.WriteString(t.op)
	for _, a := range t.args {
		sb.WriteByte(' ')
		sb.WriteString(a.ref())
	}
	sb.WriteByte(')')
	return sb.String()
}

func (t *Term) isLeaf() bool {
	switch t.op {
	case "var", "bvconst", "realconst", "intconst", "true", "false":
		return true
	}
	return false
}

// String renders the full expression (for samples / debugging), bounded.
func (t *Term) String() string {
	var sb strings.Builder
	t.write(&sb, 0)
	return sb.String()
}

func (t *Term) write(sb *strings.Builder, depth int) {
	if t.isLeaf() {
		sb.WriteString(t.ref())
		return
	}
	if depth > 12 || sb.Len() > 4000 {
		sb.WriteString("…")
		return
	}
	switch t.op {
	case "extract":
		fmt.Fprintf(sb, "((_ extract %d %d) ", t.i, t.j)
		t.args[0].write(sb, depth+1)
		sb.WriteByte(')')
		return
	case "zero_extend", "sign_extend":
		fmt.Fprintf(sb, "((_ %s %d) ", t.op, t.i)
		t.args[0].write(sb, depth+1)
		sb.WriteByte(')')
		return
	}
	sb.WriteByte('(')
	if t.op == "neg" {
		sb.WriteString("-")
	} else {
		sb.WriteString(t.op)
	}
	for _, a := range t.args {
		sb.WriteByte(' ')
		a.write(sb, depth+1)
	}
	sb.WriteByte(')')
}

// constLeafIte: t is an ite-tree (at most budget ite nodes along the else
// spine) whose leaves are all bit-vector constants.
func constLeafIte(t *Term, budget int) bool {
	if t.op != "ite" {
		return false
	}
	for n := 0; n < budget; n++ {
		if t.op == "bvconst" {
			return true
		}
		if t.op != "ite" {
			return false
		}
		if t.args[1].op != "bvconst" {
			if !constLeafIte(t.args[1], budget/2) {
				return false
			}
		}
		t = t.args[2]
	}
	return false
}

func mapIteLeaves(t *Term, f func(*Term) *Term) *Term {
	if t.op == "ite" {
		return mkIte(t.args[0], mapIteLeaves(t.args[1], f), mapIteLeaves(t.args[2], f))
	}
	return f(t)
}

package main

// Environment models (time, context, codecs, storage engines). Reset per path.

func resetEnvModels() {
}

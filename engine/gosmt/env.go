package main

// Environment models: context, time (timers/tickers). Reset per path.

import (
	"fmt"
	"go/types"

	"golang.org/x/tools/go/ssa"
)

func resetEnvModels() {
	tickerTimers = map[*value]*timer{}
	codecTable = map[*value]*codecEntry{}
	codecByToken = map[int]*codecEntry{}
	codecSeq = 0
	resetBadger()
	hookFns = map[string]value{}
	grpcConnTarget = map[*value]string{}
}

// grpcConnTarget: dial target of every modelled *grpc.ClientConn
var grpcConnTarget map[*value]string

// hookFns: Go function values registered by the harness (verifrt.Hook) that
// environment stubs call back into, e.g. the factory of the raft node returned
// by the stubbed etcd raft.StartNode/RestartNode.
var hookFns map[string]value

// ---------------------------------------------------------------- context

type ctxObj struct {
	parent   *ctxObj
	done     *channel
	err      value // iface (error) once cancelled
	children []*ctxObj
	timer    *timer
	key, val value
}

func ctxType(i *interpreter) types.Type {
	pkg := i.prog.ImportedPackage("context")
	if pkg == nil {
		panic(engineError{"context package not loaded"})
	}
	return types.NewPointer(pkg.Type("cancelCtx").Type())
}

func wrapCtx(i *interpreter, c *ctxObj) value {
	var cell value = c
	return iface{t: ctxType(i), v: &cell}
}

func unwrapCtx(v value) *ctxObj {
	switch v := v.(type) {
	case iface:
		if v.t == nil {
			panic(targetRuntimeError{"cannot create context from nil parent"})
		}
		if pv, ok := v.v.(*value); ok && pv != nil {
			if c, ok := (*pv).(*ctxObj); ok {
				return c
			}
		}
		panic(engineError{"context value not created by the engine's context model: " + v.t.String()})
	case *value:
		if c, ok := (*v).(*ctxObj); ok {
			return c
		}
	}
	panic(engineError{fmt.Sprintf("unwrapCtx %T", v)})
}

func ctxGlobalErr(i *interpreter, name string) value {
	pkg := i.prog.ImportedPackage("context")
	g := pkg.Members[name].(*ssa.Global)
	if cell, ok := i.globals[g]; ok {
		return *cell
	}
	return mkErrorValue(i, "context: "+name)
}

func (c *ctxObj) doneChan() *channel {
	if c.done == nil {
		c.done = newChannel(0, types.NewStruct(nil, nil))
		if c.err != nil {
			c.done.closed = true
		}
	}
	return c.done
}

func (c *ctxObj) cancel(err value) {
	if c.err != nil {
		return
	}
	c.err = err
	raceRelease(c)
	if c.done == nil {
		c.done = newChannel(0, types.NewStruct(nil, nil))
		c.done.closed = true
	} else if !c.done.closed {
		chClose(c.done)
	}
	if c.timer != nil {
		c.timer.stopped = true
	}
	for _, ch := range c.children {
		ch.cancel(err)
	}
}

func newChildCtx(parent *ctxObj) *ctxObj {
	c := &ctxObj{parent: parent}
	if parent != nil {
		parent.children = append(parent.children, c)
		if parent.err != nil {
			c.cancel(parent.err)
		}
	}
	return c
}

func init() {
	ext("context.Background", func(fr *frame, a []value) value { return wrapCtx(fr.i, &ctxObj{}) })
	ext("context.TODO", func(fr *frame, a []value) value { return wrapCtx(fr.i, &ctxObj{}) })
	ext("context.WithCancel", func(fr *frame, a []value) value {
		c := newChildCtx(unwrapCtx(a[0]))
		i := fr.i
		cancel := &nativeFn{"context.cancel", func(fr *frame, _ []value) value {
			c.cancel(ctxGlobalErr(i, "Canceled"))
			return nil
		}}
		return tuple{wrapCtx(fr.i, c), cancel}
	})
	withTimeout := func(fr *frame, a []value, dur int64) value {
		c := newChildCtx(unwrapCtx(a[0]))
		i := fr.i
		S.timerSeq++
		c.timer = &timer{dur: dur, seq: S.timerSeq, fn: func() { c.cancel(ctxGlobalErr(i, "DeadlineExceeded")) }}
		if c.err != nil {
			c.timer.stopped = true
		}
		S.addTimer(c.timer)
		cancel := &nativeFn{"context.cancel", func(fr *frame, _ []value) value {
			c.cancel(ctxGlobalErr(i, "Canceled"))
			return nil
		}}
		return tuple{wrapCtx(fr.i, c), cancel}
	}
	ext("context.WithTimeout", func(fr *frame, a []value) value { return withTimeout(fr, a, asInt64(a[1])) })
	ext("context.WithDeadline", func(fr *frame, a []value) value { return withTimeout(fr, a, 1<<40) })
	ext("context.WithValue", func(fr *frame, a []value) value {
		c := newChildCtx(unwrapCtx(a[0]))
		c.key, c.val = a[1], a[2]
		return wrapCtx(fr.i, c)
	})
	ext("(*context.cancelCtx).Done", func(fr *frame, a []value) value {
		c := unwrapCtx(a[0])
		if c.parent == nil && c.done == nil && c.err == nil && c.timer == nil {
			// background: never done; a nil channel blocks forever
			return (*channel)(nil)
		}
		if c.err != nil {
			raceAcquire(c)
		}
		return c.doneChan()
	})
	ext("(*context.cancelCtx).Err", func(fr *frame, a []value) value {
		c := unwrapCtx(a[0])
		if c.err == nil {
			return iface{}
		}
		raceAcquire(c)
		return c.err
	})
	ext("(*context.cancelCtx).Value", func(fr *frame, a []value) value {
		for c := unwrapCtx(a[0]); c != nil; c = c.parent {
			if c.key != nil {
				if truth(equalsV(types.NewInterfaceType(nil, nil), c.key, a[1]), "ctxkey") {
					return c.val
				}
			}
		}
		return iface{}
	})
	ext("(*context.cancelCtx).Deadline", func(fr *frame, a []value) value { return zeroResult(fr.fn) })
	ext("(*context.cancelCtx).String", func(fr *frame, a []value) value { return "context" })

	// ------------------------------------------------------------ time
	ext("time.After", func(fr *frame, a []value) value {
		ch := newChannel(1, types.Typ[types.Int64])
		S.timerSeq++
		S.addTimer(&timer{ch: ch, dur: asInt64(a[0]), seq: S.timerSeq})
		return ch
	})
	ext("time.NewTicker", func(fr *frame, a []value) value { return newTickerValue(fr, asInt64(a[0]), true) })
	ext("time.NewTimer", func(fr *frame, a []value) value { return newTickerValue(fr, asInt64(a[0]), false) })
	ext("time.Tick", func(fr *frame, a []value) value {
		ch := newChannel(1, types.Typ[types.Int64])
		S.timerSeq++
		S.addTimer(&timer{ch: ch, dur: asInt64(a[0]), seq: S.timerSeq, periodic: true})
		return ch
	})
	stop := func(fr *frame, a []value) value {
		p := a[0].(*value)
		if t, ok := tickerTimers[p]; ok {
			was := !t.stopped && t.fires == 0
			t.stopped = true
			if fr.fn.Signature.Results().Len() == 1 {
				return was
			}
		}
		if fr.fn.Signature.Results().Len() == 1 {
			return false
		}
		return nil
	}
	ext("(*time.Ticker).Stop", stop)
	ext("(*time.Timer).Stop", stop)
	ext("time.AfterFunc", func(fr *frame, a []value) value {
		i := fr.i
		f := a[1]
		S.timerSeq++
		t := &timer{dur: asInt64(a[0]), seq: S.timerSeq}
		t.fn = func() {
			S.spawn("afterfunc", func() { call(i, nil, 0, f, nil) })
		}
		S.addTimer(t)
		return newTimerStruct(fr, "Timer", nil, t)
	})
}

var tickerTimers map[*value]*timer

func newTimerStruct(fr *frame, tname string, ch *channel, t *timer) value {
	pkg := fr.i.prog.ImportedPackage("time")
	typ := pkg.Type(tname).Type()
	st := zero(typ).(structure)
	ts := typ.Underlying().(*types.Struct)
	for k := 0; k < ts.NumFields(); k++ {
		if ts.Field(k).Name() == "C" {
			if ch == nil {
				st[k] = (*channel)(nil)
			} else {
				st[k] = ch
			}
		}
	}
	var cell value = st
	p := &cell
	tickerTimers[p] = t
	return p
}

func newTickerValue(fr *frame, dur int64, periodic bool) value {
	ch := newChannel(1, types.Typ[types.Int64])
	S.timerSeq++
	t := &timer{ch: ch, dur: dur, seq: S.timerSeq, periodic: periodic}
	S.addTimer(t)
	name := "Timer"
	if periodic {
		name = "Ticker"
	}
	return newTimerStruct(fr, name, ch, t)
}

// ---------------------------------------------------------------- opaque protobuf codec
//
// golang/protobuf 1.3.5 is reflection/unsafe table driven and cannot be
// interpreted. proto.Marshal yields a byte slice that carries a deep copy of
// the message; proto.Unmarshal copies it back. Assumption (listed in the
// evidence): protobuf round-trips well-typed messages.

type codecEntry struct {
	t   types.Type
	msg value // deep copy of the message struct
}

var codecTable map[*value]*codecEntry
var codecByToken map[int]*codecEntry
var codecSeq int

func deepCopy(v value, memo map[*value]*value) value {
	switch v := v.(type) {
	case structure:
		out := make(structure, len(v))
		for i := range v {
			out[i] = deepCopy(v[i], memo)
		}
		return out
	case array:
		out := make(array, len(v))
		for i := range v {
			out[i] = deepCopy(v[i], memo)
		}
		return out
	case []value:
		if v == nil {
			return v
		}
		out := make([]value, len(v))
		for i := range v {
			out[i] = deepCopy(v[i], memo)
		}
		if len(v) > 0 {
			if e, ok := codecTable[&v[0]]; ok {
				codecTable[&out[0]] = e
			}
		}
		return out
	case *value:
		if v == nil {
			return v
		}
		if m, ok := memo[v]; ok {
			return m
		}
		if _, isCtx := (*v).(*ctxObj); isCtx {
			return v
		}
		cell := new(value)
		memo[v] = cell
		*cell = deepCopy(*v, memo)
		return cell
	case *omap:
		if v == nil {
			return v
		}
		out := &omap{keyType: v.keyType}
		for i := range v.keys {
			out.keys = append(out.keys, deepCopy(v.keys[i], memo))
			out.vals = append(out.vals, deepCopy(v.vals[i], memo))
		}
		return out
	case iface:
		return iface{t: v.t, v: deepCopy(v.v, memo)}
	}
	return v
}

// isDefaultMessage: every field of the (concrete) message value has its
// proto3 default: zero numbers, empty strings, empty or nil repeated fields
// and maps, nil sub-messages.
func isDefaultMessage(v value) bool {
	switch v := v.(type) {
	case nil:
		return true
	case structure:
		for _, f := range v {
			if !isDefaultMessage(f) {
				return false
			}
		}
		return true
	case []value:
		return len(v) == 0
	case *omap:
		return v == nil || v.len() == 0
	case *value:
		return v == nil
	case iface:
		return v.t == nil
	case string:
		return v == ""
	case bool:
		return !v
	case int:
		return v == 0
	case int32:
		return v == 0
	case int64:
		return v == 0
	case uint32:
		return v == 0
	case uint64:
		return v == 0
	case uint8:
		return v == 0
	case float32:
		return v == 0
	case float64:
		return v == 0
	}
	return false
}

func init() {
	// The marshalled form is 8 bytes: a 4-byte magic and a 4-byte token that
	// identifies the stored message. Copies of the bytes (through raftpb, the
	// WAL, snapshots) therefore still decode.
	marshal := func(fr *frame, a []value) value {
		m := a[0].(iface)
		if m.t == nil {
			return tuple{[]value(nil), mkErrorValue(fr.i, "proto: Marshal called with nil")}
		}
		pv, ok := m.v.(*value)
		if !ok || pv == nil {
			return tuple{[]value(nil), mkErrorValue(fr.i, "proto: Marshal called with nil")}
		}
		if isDefaultMessage(*pv) {
			// proto3: a message whose fields all have their default values encodes to nothing
			return tuple{[]value{}, iface{}}
		}
		codecSeq++
		codecByToken[codecSeq] = &codecEntry{t: m.t, msg: deepCopy(*pv, map[*value]*value{})}
		buf := []value{uint8(0xC0), uint8(0xDE), uint8(0xC0), uint8(0x01),
			uint8(codecSeq >> 24), uint8(codecSeq >> 16), uint8(codecSeq >> 8), uint8(codecSeq)}
		return tuple{buf, iface{}}
	}
	lookupToken := func(data []value) *codecEntry {
		if len(data) != 8 {
			return nil
		}
		var b [8]byte
		for i := range data {
			c, ok := data[i].(uint8)
			if !ok {
				return nil
			}
			b[i] = c
		}
		if b[0] != 0xC0 || b[1] != 0xDE || b[2] != 0xC0 || b[3] != 0x01 {
			return nil
		}
		return codecByToken[int(b[4])<<24|int(b[5])<<16|int(b[6])<<8|int(b[7])]
	}
	unmarshal := func(fr *frame, a []value) value {
		data := a[0].([]value)
		m := a[1].(iface)
		pv := m.v.(*value)
		if e := lookupToken(data); e != nil {
			if !types.Identical(e.t, m.t) {
				return mkErrorValue(fr.i, "proto: cannot parse (message type mismatch)")
			}
			*pv = deepCopy(e.msg, map[*value]*value{})
			return iface{}
		}
		// real bytes: use the message's own Unmarshal method when it has one (gogo-generated code)
		if ms := fr.i.prog.MethodSets.MethodSet(m.t); ms != nil {
			if sel := ms.Lookup(nil, "Unmarshal"); sel != nil {
				if f := fr.i.prog.MethodValue(sel); f != nil {
					return call(fr.i, fr, 0, f, []value{m.v, data})
				}
			}
		}
		if len(data) == 0 {
			// empty input = message with all defaults
			*pv = zero(mustDeref(m.t))
			return iface{}
		}
		return mkErrorValue(fr.i, "proto: cannot parse invalid wire-format data")
	}
	for _, p := range []string{"github.com/golang/protobuf/proto.", "github.com/gogo/protobuf/proto."} {
		ext(p+"Marshal", marshal)
		ext(p+"Unmarshal", unmarshal)
		ext(p+"CompactTextString", func(fr *frame, a []value) value { return "pb" })
		ext(p+"Size", func(fr *frame, a []value) value { return 8 })
		// Clone: a deep copy of the message (the real one walks the value by reflection)
		ext(p+"Clone", func(fr *frame, a []value) value {
			m, ok := a[0].(iface)
			if !ok || m.t == nil {
				return a[0]
			}
			pv, ok := m.v.(*value)
			if !ok || pv == nil {
				return a[0]
			}
			var cell value = deepCopy(*pv, map[*value]*value{})
			return iface{t: m.t, v: &cell}
		})
	}
}

// ---------------------------------------------------------------- SIMD wrappers
//
// The AVX/SSE kernels are machine code (C15's subject, asmsmt). Elsewhere the
// Go wrappers are modelled by what their Go part does (&a[0] and &b[0] panic
// on empty slices) followed by the portable kernel of index/space, whose real
// SSA is executed. cpuid reports AVX so that the production dispatch is taken.
func init() {
	kernels := map[string]string{"EuclideanDistance": "EuclideanDistance", "ManhattanDistance": "ManhattanDistance", "CosineDistance": "CosineDistance"}
	for _, pkg := range []string{"github.com/marekgalovic/anndb/simd/avx", "github.com/marekgalovic/anndb/simd/sse"} {
		for name, nat := range kernels {
			nat := nat
			ext(pkg+"."+name, func(fr *frame, a []value) value {
				if _, ok := hookFns["simd-real-wrappers"]; ok {
					// the wrapper's real SSA runs; only the assembly kernel it calls is
					// replaced (by its memory effect, see external.go)
					return useRealBody{}
				}
				x, y := a[0].([]value), a[1].([]value)
				if len(x) == 0 {
					panic(targetRuntimeError{"index out of range [0] with length 0"})
				}
				if len(y) == 0 {
					panic(targetRuntimeError{"index out of range [0] with length 0"})
				}
				if len(y) < len(x) {
					panic(targetRuntimeError{fmt.Sprintf("simd kernel reads %d floats from a vector of %d (out of bounds)", len(x), len(y))})
				}
				sp := fr.i.prog.ImportedPackage("github.com/marekgalovic/anndb/index/space")
				if sp == nil {
					panic(engineError{"index/space not loaded for the portable kernel"})
				}
				t := sp.Type("nativeSpaceImpl").Type()
				f := fr.i.prog.LookupMethod(t, sp.Pkg, nat)
				if f == nil {
					panic(engineError{"portable kernel " + nat + " not found"})
				}
				return call(fr.i, fr, 0, f, []value{zero(t), a[0], a[1]})
			})
		}
	}
	ext("(github.com/klauspost/cpuid.CPUInfo).AVX", func(fr *frame, a []value) value { return true })
	ext("(github.com/klauspost/cpuid.CPUInfo).SSE", func(fr *frame, a []value) value { return true })
}

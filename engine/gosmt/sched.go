package main

// Interpreted goroutines are real goroutines serialised by a baton: exactly
// one runs at a time, and every hand-over is a recorded path decision.
// Channels, select, mutexes, wait groups and timers are modelled here so that
// blocked-ness is known and deadlocks are detected.

import (
	"fmt"
	"go/types"
	"sort"
	"strings"
	"sync"
)

type thread struct {
	id      int
	wake    chan struct{}
	blocked func() bool
	desc    string
	done    bool
	name    string
	proc    int  // process tag (verifrt.SetProcess), inherited by spawned goroutines
	killed  bool // its process was killed (verifrt.KillProcess): never scheduled again
}

type timer struct {
	born     int64    // virtual time of creation (virtual-clock mode)
	ch       *channel // fires by sending a value / closing
	fn       func()   // or a callback
	dur      int64
	periodic bool
	fires    int
	stopped  bool
	seq      int
	proc     int // process tag of the goroutine that armed it
}

type scheduler struct {
	threads   []*thread
	cur       *thread
	aborting  bool
	preempt   int // remaining voluntary preemptions
	timers    []*timer
	timerSeq  int
	tickLimit int
	finished  chan pathEnd
	wg        sync.WaitGroup
	chanSeq   int
	timersNondet bool
	deterministic bool
	atomicSwitch  bool // sync/atomic operations are scheduling points (verifrt.AtomicSwitch)
	timersRacy    bool  // timers may fire at scheduling points (verifrt.TimersRacy)
	vclockOn      bool  // virtual-clock mode (verifrt.AdvanceTime): timers fire in order of their due time
	now           int64 // virtual time, nanoseconds
}

func (s *scheduler) addTimer(t *timer) {
	t.born = s.now
	if s.cur != nil {
		t.proc = s.cur.proc
	}
	s.timers = append(s.timers, t)
}

// due: the virtual time at which t fires next (virtual-clock mode).
func (t *timer) due() int64 {
	if t.periodic {
		return t.born + int64(t.fires+1)*t.dur
	}
	return t.born + t.dur
}

// nextDue returns the pending timer with the earliest due time (ties: the one
// armed first), or nil.
func (s *scheduler) nextDue() *timer {
	var best *timer
	for _, t := range s.timers {
		if t.stopped || (!t.periodic && t.fires > 0) {
			continue
		}
		if best == nil || t.due() < best.due() || (t.due() == best.due() && t.seq < best.seq) {
			best = t
		}
	}
	return best
}

func (s *scheduler) fire(t *timer) {
	t.fires++
	P.tracef("timer %d fires (dur %d, t=%d)", t.seq, t.dur, s.now)
	if t.fn != nil {
		t.fn()
	} else if t.ch != nil {
		chTrySend(t.ch, int64(0))
	}
}

var S *scheduler

type abortPath struct{}

func newScheduler() *scheduler {
	return &scheduler{finished: make(chan pathEnd, 64), tickLimit: 1}
}

func (s *scheduler) enabled() []*thread {
	var out []*thread
	// current thread first so that choice 0 == "keep running"
	if s.cur != nil && !s.cur.done && !s.cur.killed && (s.cur.blocked == nil || s.cur.blocked()) {
		out = append(out, s.cur)
	}
	for _, t := range s.threads {
		if t == s.cur || t.done || t.killed {
			continue
		}
		if t.blocked == nil || t.blocked() {
			out = append(out, t)
		}
	}
	return out
}

// transfer hands the baton to t and parks the calling thread until it gets
// the baton back.
func (s *scheduler) transfer(t *thread) {
	self := s.cur
	if t == self {
		return
	}
	P.sched = append(P.sched, t.id)
	s.cur = t
	t.wake <- struct{}{}
	<-self.wake
	if s.aborting {
		panic(abortPath{})
	}
}

// switchPoint is a voluntary preemption point.
func (s *scheduler) switchPoint(kind string) {
	if s.preempt <= 0 || len(s.threads) <= 1 {
		return
	}
	en := s.enabled()
	// racy timers (verifrt.TimersRacy): a pending timer may also fire here, while
	// goroutines are still running - a deadline that expires in the middle of the
	// work it guards. Costs one preemption, like a hand-over.
	racy := s.timersRacy && s.hasPendingTimer()
	n := len(en)
	if racy {
		n++
	}
	if n <= 1 {
		return
	}
	c := P.decide(n, "sched:"+kind)
	if c == 0 {
		return
	}
	s.preempt--
	if c == len(en) {
		s.fireTimer()
		return
	}
	s.transfer(en[c])
}

func (s *scheduler) hasPendingTimer() bool {
	for _, t := range s.timers {
		if !t.stopped && (t.fires == 0 || (t.periodic && t.fires < s.tickLimit)) {
			return true
		}
	}
	return false
}

func (s *scheduler) describeBlocked() string {
	var parts []string
	for _, t := range s.threads {
		if !t.done && !t.killed && t.blocked != nil {
			parts = append(parts, fmt.Sprintf("g%d(%s): %s", t.id, t.name, t.desc))
		}
	}
	sort.Strings(parts)
	return strings.Join(parts, "; ")
}

// pickNext is called when the current thread cannot continue (blocked or
// finished). It returns the thread to run, firing timers if nothing else can.
func (s *scheduler) pickNext() *thread {
	for {
		en := s.enabled()
		if len(en) > 0 {
			if len(en) == 1 {
				return en[0]
			}
			return en[P.decide(len(en), "sched:block")]
		}
		if !s.fireTimer() {
			return nil
		}
	}
}

// fireTimer fires the pending timer with the earliest deadline (ties: the one
// armed first). Returns false if there is none.
func (s *scheduler) fireTimer() bool {
	if s.vclockOn {
		// everything is blocked: time jumps to the next timer
		t := s.nextDue()
		if t == nil {
			return false
		}
		if d := t.due(); d > s.now {
			s.now = d
		}
		s.fire(t)
		return true
	}
	var cand []*timer
	for _, t := range s.timers {
		if !t.stopped && (t.fires == 0 || (t.periodic && t.fires < s.tickLimit)) {
			cand = append(cand, t)
		}
	}
	if len(cand) == 0 {
		return false
	}
	sort.SliceStable(cand, func(i, j int) bool {
		if cand[i].dur != cand[j].dur {
			return cand[i].dur < cand[j].dur
		}
		return cand[i].seq < cand[j].seq
	})
	t := cand[0]
	if s.timersNondet && len(cand) > 1 {
		t = cand[P.decide(len(cand), "timer")]
	}
	t.fires++
	P.tracef("timer %d fires (dur %d)", t.seq, t.dur)
	if t.fn != nil {
		t.fn()
	} else if t.ch != nil {
		// non-blocking send like the runtime does
		chTrySend(t.ch, int64(0))
	}
	return true
}

// waitUntil blocks the current thread until pred holds.
func (s *scheduler) waitUntil(pred func() bool, desc string) {
	if pred() {
		return
	}
	self := s.cur
	self.blocked = pred
	self.desc = desc
	for {
		next := s.pickNext()
		if next == nil {
			d := s.describeBlocked()
			panic(pathEnd{"deadlock", d})
		}
		if next == self {
			break
		}
		s.transfer(next)
		if pred() {
			break
		}
	}
	self.blocked = nil
	self.desc = ""
}

// spawn starts a new interpreted goroutine running body.
func (s *scheduler) spawn(name string, body func()) *thread {
	t := &thread{id: len(s.threads), wake: make(chan struct{}, 1), name: name}
	if s.cur != nil {
		t.proc = s.cur.proc
	}
	s.threads = append(s.threads, t)
	s.wg.Add(1)
	go func() {
		defer s.wg.Done()
		<-t.wake
		if s.aborting {
			return
		}
		defer func() {
			r := recover()
			t.done = true
			if _, ok := r.(abortPath); ok {
				return
			}
			if s.aborting {
				return
			}
			if r != nil {
				s.finished <- classifyPanic(r)
				return
			}
			if t.id == 0 {
				s.finished <- pathEnd{"ok", ""}
				return
			}
			// a non-main goroutine finished: hand the baton on
			next := s.pickNext2()
			if next == nil {
				return
			}
			P.sched = append(P.sched, next.id)
			s.cur = next
			next.wake <- struct{}{}
		}()
		body()
	}()
	return t
}

// pickNext2 is pickNext for an exiting thread: a deadlock is reported through
// the finished channel instead of a panic.
func (s *scheduler) pickNext2() (t *thread) {
	defer func() {
		if r := recover(); r != nil {
			s.finished <- classifyPanic(r)
			t = nil
		}
	}()
	next := s.pickNext()
	if next == nil {
		panic(pathEnd{"deadlock", s.describeBlocked()})
	}
	return next
}

func classifyPanic(r interface{}) pathEnd {
	switch r := r.(type) {
	case pathEnd:
		return r
	case engineError:
		return pathEnd{"engine-error", r.msg}
	case targetPanic:
		return pathEnd{"panic", panicString(r.v)}
	case targetRuntimeError:
		return pathEnd{"panic", r.Error()}
	case exitPanic:
		return pathEnd{"exit", fmt.Sprint(int(r))}
	case error:
		return pathEnd{"engine-error", "interpreter crash: " + r.Error() + "\n" + stackSnippet()}
	default:
		return pathEnd{"engine-error", fmt.Sprintf("interpreter crash: %v\n%s", r, stackSnippet())}
	}
}

func panicString(v value) string {
	if i, ok := v.(iface); ok {
		if s, ok := i.v.(string); ok {
			return s
		}
		if i.t != nil {
			// error values: try common shapes
			if pv, ok := i.v.(*value); ok && pv != nil {
				if st, ok := (*pv).(structure); ok && len(st) > 0 {
					if s, ok := st[0].(string); ok {
						return s
					}
				}
			}
			return "(" + i.t.String() + ") " + toString(i.v)
		}
	}
	return toString(v)
}

// runMain runs fn as thread 0 and waits for the path outcome, then tears all
// threads down.
func (s *scheduler) runMain(body func()) pathEnd {
	t := s.spawn("main", body)
	s.cur = t
	t.wake <- struct{}{}
	end := <-s.finished
	s.aborting = true
	for _, th := range s.threads {
		if !th.done {
			select {
			case th.wake <- struct{}{}:
			default:
			}
		}
	}
	s.wg.Wait()
	return end
}

// ---------------------------------------------------------------- channels

type selState struct {
	fired bool
	which int
	val   value
	ok    bool
	panic string
}

type waiter struct {
	sel  *selState
	idx  int
	val  value // for senders
	send bool
}

type channel struct {
	id     int
	cap    int
	buf    []value
	closed bool
	recvq  []*waiter
	sendq  []*waiter
	elem   types.Type
}

func newChannel(capacity int, elem types.Type) *channel {
	S.chanSeq++
	return &channel{id: S.chanSeq, cap: capacity, elem: elem}
}

func popWaiter(q *[]*waiter) *waiter {
	for len(*q) > 0 {
		w := (*q)[0]
		*q = (*q)[1:]
		if !w.sel.fired {
			return w
		}
	}
	return nil
}

func hasWaiter(q []*waiter) bool {
	for _, w := range q {
		if !w.sel.fired {
			return true
		}
	}
	return false
}

func chCanSend(ch *channel) bool {
	if ch == nil {
		return false
	}
	return ch.closed || hasWaiter(ch.recvq) || len(ch.buf) < ch.cap
}

func chCanRecv(ch *channel) bool {
	if ch == nil {
		return false
	}
	return len(ch.buf) > 0 || hasWaiter(ch.sendq) || ch.closed
}

// chTrySend performs a send if possible without blocking.
func chTrySend(ch *channel, v value) bool {
	if ch == nil {
		return false
	}
	if ch.closed {
		panic(targetRuntimeError{"send on closed channel"})
	}
	if w := popWaiter(&ch.recvq); w != nil {
		w.sel.fired, w.sel.which, w.sel.val, w.sel.ok = true, w.idx, v, true
		return true
	}
	if len(ch.buf) < ch.cap {
		ch.buf = append(ch.buf, v)
		return true
	}
	return false
}

func chTryRecv(ch *channel) (v value, ok bool, success bool) {
	if ch == nil {
		return nil, false, false
	}
	if len(ch.buf) > 0 {
		v = ch.buf[0]
		ch.buf = append([]value(nil), ch.buf[1:]...)
		if w := popWaiter(&ch.sendq); w != nil {
			ch.buf = append(ch.buf, w.val)
			w.sel.fired, w.sel.which, w.sel.ok = true, w.idx, true
		}
		return v, true, true
	}
	if w := popWaiter(&ch.sendq); w != nil {
		w.sel.fired, w.sel.which, w.sel.ok = true, w.idx, true
		return w.val, true, true
	}
	if ch.closed {
		return zero(ch.elem), false, true
	}
	return nil, false, false
}

func chSend(ch *channel, v value) {
	S.switchPoint("send")
	if ch != nil {
		raceRelease(ch)
	}
	if chTrySend(ch, v) {
		raceAcquire(ch)
		return
	}
	if ch == nil {
		S.waitUntil(func() bool { return false }, "send on nil channel")
	}
	sel := &selState{}
	ch.sendq = append(ch.sendq, &waiter{sel: sel, val: v, send: true})
	S.waitUntil(func() bool { return sel.fired }, fmt.Sprintf("chan send (chan#%d cap %d len %d)", ch.id, ch.cap, len(ch.buf)))
	if sel.panic != "" {
		panic(targetRuntimeError{sel.panic})
	}
	raceAcquire(ch)
}

func chRecv(ch *channel) (value, bool) {
	S.switchPoint("recv")
	if v, ok, success := chTryRecv(ch); success {
		raceAcqRel(ch)
		return v, ok
	}
	if ch == nil {
		S.waitUntil(func() bool { return false }, "receive from nil channel")
	}
	sel := &selState{}
	ch.recvq = append(ch.recvq, &waiter{sel: sel})
	S.waitUntil(func() bool { return sel.fired }, fmt.Sprintf("chan receive (chan#%d)", ch.id))
	raceAcqRel(ch)
	if !sel.ok {
		return zero(ch.elem), false
	}
	return sel.val, true
}

func chClose(ch *channel) {
	if ch == nil {
		panic(targetRuntimeError{"close of nil channel"})
	}
	if ch.closed {
		panic(targetRuntimeError{"close of closed channel"})
	}
	ch.closed = true
	raceRelease(ch)
	for {
		w := popWaiter(&ch.recvq)
		if w == nil {
			break
		}
		w.sel.fired, w.sel.which, w.sel.ok = true, w.idx, false
		w.sel.val = zero(ch.elem)
	}
	for {
		w := popWaiter(&ch.sendq)
		if w == nil {
			break
		}
		w.sel.fired, w.sel.which = true, w.idx
		w.sel.panic = "send on closed channel"
	}
}

type selCase struct {
	ch   *channel
	send bool
	val  value
}

// chSelect implements select. Returns chosen index (-1 for default), the
// received value and ok.
func chSelect(cases []selCase, blocking bool) (int, value, bool) {
	S.switchPoint("select")
	if R != nil {
		for _, c := range cases {
			if c.send && c.ch != nil {
				raceRelease(c.ch)
			}
		}
	}
	var ready []int
	for i, c := range cases {
		if c.send && chCanSend(c.ch) || !c.send && chCanRecv(c.ch) {
			ready = append(ready, i)
		}
	}
	if len(ready) > 0 {
		i := ready[0]
		if len(ready) > 1 {
			i = ready[P.decide(len(ready), "select")]
		}
		c := cases[i]
		if c.send {
			if !chTrySend(c.ch, c.val) {
				panic(engineError{"select: ready send failed"})
			}
			raceAcquire(c.ch)
			return i, nil, false
		}
		v, ok, success := chTryRecv(c.ch)
		if !success {
			panic(engineError{"select: ready recv failed"})
		}
		raceAcqRel(c.ch)
		return i, v, ok
	}
	if !blocking {
		return -1, nil, false
	}
	sel := &selState{}
	any := false
	for i, c := range cases {
		if c.ch == nil {
			continue
		}
		any = true
		w := &waiter{sel: sel, idx: i, val: c.val, send: c.send}
		if c.send {
			c.ch.sendq = append(c.ch.sendq, w)
		} else {
			c.ch.recvq = append(c.ch.recvq, w)
		}
	}
	if !any {
		S.waitUntil(func() bool { return false }, "select with no live cases")
	}
	var desc []string
	for _, c := range cases {
		if c.ch != nil {
			d := "recv"
			if c.send {
				d = "send"
			}
			desc = append(desc, fmt.Sprintf("%s chan#%d", d, c.ch.id))
		}
	}
	S.waitUntil(func() bool { return sel.fired }, "select ("+strings.Join(desc, ", ")+")")
	if sel.panic != "" {
		panic(targetRuntimeError{sel.panic})
	}
	raceAcqRel(cases[sel.which].ch)
	if cases[sel.which].send {
		return sel.which, nil, false
	}
	return sel.which, sel.val, sel.ok
}

// ---------------------------------------------------------------- sync

type mutexState struct {
	locked   bool
	readers  int
	wwaiting int
	owner    int
}

type wgState struct{ n int64 }

var syncStates map[*value]interface{}

func mutexOf(p *value) *mutexState {
	if p == nil {
		panic(targetRuntimeError{"invalid memory address or nil pointer dereference (nil mutex)"})
	}
	if st, ok := syncStates[p]; ok {
		return st.(*mutexState)
	}
	st := &mutexState{}
	syncStates[p] = st
	return st
}

func mutexLock(p *value) {
	m := mutexOf(p)
	S.switchPoint("lock")
	m.wwaiting++
	defer func() { m.wwaiting-- }()
	S.waitUntil(func() bool { return !m.locked && m.readers == 0 }, fmt.Sprintf("Lock of mutex %p (held: writer=%v readers=%d)", p, m.locked, m.readers))
	m.locked = true
	m.owner = S.cur.id
	raceAcquire(p)
	raceAcquire(rwReaders{p})
}

func mutexTryLock(p *value) bool {
	m := mutexOf(p)
	if !m.locked && m.readers == 0 {
		m.locked = true
		raceAcquire(p)
		raceAcquire(rwReaders{p})
		return true
	}
	return false
}

func mutexUnlock(p *value) {
	m := mutexOf(p)
	if !m.locked {
		panic(pathEnd{"fatal", "sync: unlock of unlocked mutex"})
	}
	m.locked = false
	raceRelease(p)
}

func mutexRLock(p *value) {
	m := mutexOf(p)
	S.switchPoint("rlock")
	S.waitUntil(func() bool { return !m.locked && m.wwaiting == 0 }, fmt.Sprintf("RLock of rwmutex %p (writer=%v, writers waiting=%d, readers=%d)", p, m.locked, m.wwaiting, m.readers))
	m.readers++
	raceAcquire(p)
}

func mutexRUnlock(p *value) {
	m := mutexOf(p)
	if m.readers <= 0 {
		panic(pathEnd{"fatal", "sync: RUnlock of unlocked RWMutex"})
	}
	m.readers--
	raceRelease(rwReaders{p})
}

func wgOf(p *value) *wgState {
	if st, ok := syncStates[p]; ok {
		return st.(*wgState)
	}
	st := &wgState{}
	syncStates[p] = st
	return st
}

// killProcess: every goroutine tagged proc stops for good (the process died);
// its timers never fire again. A killed goroutine that is running (the caller,
// inside a hook) keeps the baton until it blocks.
func (s *scheduler) killProcess(proc int) {
	for _, t := range s.threads {
		if t.proc == proc && !t.done {
			t.killed = true
		}
	}
	for _, t := range s.timers {
		if t.proc == proc {
			t.stopped = true
		}
	}
}

package main

// Intercepted functions: the verifrt harness API, concurrency primitives,
// environment stubs (time, randomness, logging, formatting, codecs) and the
// few library functions that cannot be interpreted from source.

import (
	"fmt"
	"go/token"
	"go/types"
	"math"
	"os"
	"sort"
	"strconv"
	"strings"

	"golang.org/x/tools/go/ssa"
)

type externalFn func(fr *frame, args []value) value

// nativeFn is a function value implemented by the engine (e.g. a context
// cancel function).
type nativeFn struct {
	name string
	fn   func(fr *frame, args []value) value
}

var externals = map[string]externalFn{}

const verifrtPath = "github.com/marekgalovic/anndb/verifrt"

// extra stubs configured from the command line: "stub-name" => behaviour
var cfgStubs = map[string]string{}

func lookupExternal(fn *ssa.Function, name string) externalFn {
	if e, ok := externals[name]; ok {
		return e
	}
	if fn.Pkg != nil {
		switch fn.Pkg.Pkg.Path() {
		case "github.com/sirupsen/logrus":
			return logrusStub(fn)
		case "github.com/golang/protobuf/proto", "github.com/gogo/protobuf/proto":
			if strings.HasPrefix(fn.Name(), "Register") {
				return func(fr *frame, args []value) value { return zeroResult(fn) }
			}
		case "reflect", "internal/reflectlite", "internal/abi":
			return func(fr *frame, args []value) value {
				panic(engineError{"reflection is not supported: " + name})
			}
		}
	}
	if strings.HasPrefix(name, "(*github.com/coreos/etcd/raft.DefaultLogger).") {
		n := fn.Name()
		if strings.HasPrefix(n, "Panic") || strings.HasPrefix(n, "Fatal") {
			return func(fr *frame, args []value) value {
				msg := "raft logger " + n
				for _, a := range args[1:] {
					msg += " " + describeValue(a)
				}
				panic(targetPanic{iface{types.Typ[types.String], msg}})
			}
		}
		return func(fr *frame, args []value) value { return zeroResult(fn) }
	}
	// methods of logrus types reached through wrappers have Pkg == nil sometimes
	if strings.Contains(name, "github.com/sirupsen/logrus.") {
		return logrusStub(fn)
	}
	return nil
}

func zeroResult(fn *ssa.Function) value {
	res := fn.Signature.Results()
	switch res.Len() {
	case 0:
		return nil
	case 1:
		return zero(res.At(0).Type())
	}
	return zero(res)
}

func logrusStub(fn *ssa.Function) externalFn {
	n := fn.Name()
	if strings.HasPrefix(n, "Fatal") || strings.HasPrefix(n, "Panic") || n == "Exit" {
		return func(fr *frame, args []value) value {
			msg := ""
			for _, a := range args[1:] {
				msg += " " + describeValue(a)
			}
			panic(pathEnd{"fatal", "log." + n + ":" + msg})
		}
	}
	if os.Getenv("GOSMT_LOGTRACE") != "" && (strings.HasSuffix(n, "f") || n == "Info" || n == "Warning" || n == "Error") {
		return func(fr *frame, args []value) value {
			msg := ""
			for _, a := range args[1:] {
				msg += " " + describeValue(a)
			}
			if len(msg) > 300 {
				msg = msg[:300]
			}
			P.tracef("log.%s:%s", n, msg)
			return zeroResult(fn)
		}
	}
	return func(fr *frame, args []value) value { return zeroResult(fn) }
}

func describeValue(v value) string {
	switch v := v.(type) {
	case iface:
		if v.t == nil {
			return "<nil>"
		}
		if es, ok := errorString(v); ok {
			return es
		}
		return describeValue(v.v)
	case []value:
		var parts []string
		for _, e := range v {
			parts = append(parts, describeValue(e))
		}
		return "[" + strings.Join(parts, " ") + "]"
	case string:
		return v
	}
	s := toString(v)
	if len(s) > 200 {
		s = s[:200] + "…"
	}
	return s
}

// errorString extracts the message of common error shapes without calling
// the interpreter.
func errorString(v iface) (string, bool) {
	if v.t == nil {
		return "", false
	}
	if pv, ok := v.v.(*value); ok && pv != nil {
		if st, ok := (*pv).(structure); ok && len(st) >= 1 {
			if s, ok := st[0].(string); ok && strings.Contains(v.t.String(), "errorString") {
				return s, true
			}
		}
	}
	return "", false
}

func ext(name string, f externalFn) { externals[name] = f }

func init() {
	registerVerifrt()
	registerSync()
	registerAtomic()
	registerMisc()
}

// ------------------------------------------------------------------ verifrt

var symSeq int

func freshName(kind, label string) string {
	symSeq++
	clean := strings.Map(func(r rune) rune {
		if r >= 'a' && r <= 'z' || r >= 'A' && r <= 'Z' || r >= '0' && r <= '9' || r == '_' {
			return r
		}
		return '_'
	}, label)
	return fmt.Sprintf("%s_%s_%d", kind, clean, symSeq)
}

func nextReplay(fnName string) string {
	if P.replayAt >= len(P.replay) {
		panic(engineError{"replay vector exhausted at " + fnName})
	}
	v := P.replay[P.replayAt]
	P.replayAt++
	return v
}

func symIntInput(fnName, label string, k types.BasicKind) value {
	w, _ := intInfo(k)
	if P.concrete {
		s := nextReplay(fnName)
		u, err := strconv.ParseUint(strings.TrimPrefix(s, "0x"), 16, 64)
		if err != nil {
			panic(engineError{"bad replay value " + s})
		}
		P.inputs = append(P.inputs, InputRec{Fn: fnName, Name: label, Kind: "bv", Conc: s})
		return intFromBits(k, u)
	}
	t := mkVar(freshName("i", label), bvSort(w))
	P.inputs = append(P.inputs, InputRec{Fn: fnName, Name: label, Kind: "bv", term: t})
	return symInt{k, t}
}

func registerVerifrt() {
	p := verifrtPath + "."
	ext(p+"Int", func(fr *frame, a []value) value { return symIntInput("Int", a[0].(string), types.Int) })
	ext(p+"Uint64", func(fr *frame, a []value) value { return symIntInput("Uint64", a[0].(string), types.Uint64) })
	ext(p+"Uint32", func(fr *frame, a []value) value { return symIntInput("Uint32", a[0].(string), types.Uint32) })
	ext(p+"Uint16", func(fr *frame, a []value) value { return symIntInput("Uint16", a[0].(string), types.Uint16) })
	ext(p+"Int32", func(fr *frame, a []value) value { return symIntInput("Int32", a[0].(string), types.Int32) })
	ext(p+"Byte", func(fr *frame, a []value) value { return symIntInput("Byte", a[0].(string), types.Uint8) })
	ext(p+"SymIntIn", func(fr *frame, a []value) value {
		lo, hi := asInt64(a[1]), asInt64(a[2])
		v := symIntInput("SymIntIn", a[0].(string), types.Int)
		if s, ok := v.(symInt); ok {
			P.assume(mkBoolVal(mkAnd(mkBVCmp("bvsle", mkBV(uint64(lo), 64), s.t), mkBVCmp("bvsle", s.t, mkBV(uint64(hi), 64)))))
		}
		return v
	})
	ext(p+"Bool", func(fr *frame, a []value) value {
		label := a[0].(string)
		if P.concrete {
			s := nextReplay("Bool")
			P.inputs = append(P.inputs, InputRec{Fn: "Bool", Name: label, Kind: "bool", Conc: s})
			return s == "true"
		}
		t := mkVar(freshName("b", label), boolSort)
		P.inputs = append(P.inputs, InputRec{Fn: "Bool", Name: label, Kind: "bool", term: t})
		return symBool{t}
	})
	// IntIn / Choose: enumerated decisions, concrete on each path
	ext(p+"IntIn", func(fr *frame, a []value) value {
		lo, hi := asInt64(a[1]), asInt64(a[2])
		if hi < lo {
			panic(engineError{"IntIn: empty range"})
		}
		var c int64
		if P.concrete {
			s := nextReplay("IntIn")
			c, _ = strconv.ParseInt(s, 10, 64)
		} else {
			c = lo + int64(P.decide(int(hi-lo+1), "IntIn:"+a[0].(string)))
		}
		P.inputs = append(P.inputs, InputRec{Fn: "IntIn", Name: a[0].(string), Kind: "enum", Conc: fmt.Sprint(c)})
		return int(c)
	})
	ext(p+"Choose", func(fr *frame, a []value) value {
		n := asInt64(a[1])
		var c int64
		if P.concrete {
			s := nextReplay("Choose")
			c, _ = strconv.ParseInt(s, 10, 64)
		} else {
			c = int64(P.decide(int(n), "Choose:"+a[0].(string)))
		}
		P.inputs = append(P.inputs, InputRec{Fn: "Choose", Name: a[0].(string), Kind: "enum", Conc: fmt.Sprint(c)})
		return int(c)
	})
	// F32Grid: a float32 whose value is an integer in [lo,hi] (exact domain)
	ext(p+"F32Grid", func(fr *frame, a []value) value {
		label := a[0].(string)
		lo, hi := asInt64(a[1]), asInt64(a[2])
		if P.concrete {
			s := nextReplay("F32Grid")
			f, _ := strconv.ParseFloat(s, 64)
			P.inputs = append(P.inputs, InputRec{Fn: "F32Grid", Name: label, Kind: "real", Conc: s})
			return float32(f)
		}
		iv := mkVar(freshName("g", label), intSort)
		P.inputs = append(P.inputs, InputRec{Fn: "F32Grid", Name: label, Kind: "real", term: iv})
		P.assertPC(mkAnd(mkArithCmp("<=", mkInt(lo), iv), mkArithCmp("<=", iv, mkInt(hi))))
		return symFloat{k: types.Float32, t: mkToReal(iv), exact: true, lo: lo, hi: hi}
	})
	// F32Order: an opaque non-negative finite float32 usable only in comparisons
	ext(p+"F32Order", func(fr *frame, a []value) value {
		label := a[0].(string)
		if P.concrete {
			s := nextReplay("F32Order")
			f, _ := strconv.ParseFloat(s, 64)
			P.inputs = append(P.inputs, InputRec{Fn: "F32Order", Name: label, Kind: "real", Conc: s})
			return float32(f)
		}
		// integer-valued in [0, 2^20]: any finite set of reals is order-isomorphic to
		// integers, so comparisons lose nothing, and replay values are exact float32s
		iv := mkVar(freshName("o", label), intSort)
		P.inputs = append(P.inputs, InputRec{Fn: "F32Order", Name: label, Kind: "real", term: iv})
		P.assertPC(mkAnd(mkArithCmp("<=", mkInt(0), iv), mkArithCmp("<=", iv, mkInt(1<<20))))
		return symFloat{k: types.Float32, t: mkToReal(iv)}
	})
	ext(p+"Assume", func(fr *frame, a []value) value { P.assume(a[0]); return nil })
	ext(p+"Assert", func(fr *frame, a []value) value { P.obligation(a[0], a[1].(string)); return nil })
	ext(p+"Cover", func(fr *frame, a []value) value { P.cover(a[0], a[1].(string)); return nil })
	ext(p+"Reach", func(fr *frame, a []value) value { P.res.Reached[a[0].(string)]++; return nil })
	ext(p+"And", func(fr *frame, a []value) value { return andV(a[0], a[1]) })
	ext(p+"Or", func(fr *frame, a []value) value { return notV(andV(notV(a[0]), notV(a[1]))) })
	ext(p+"Not", func(fr *frame, a []value) value { return notV(a[0]) })
	ext(p+"Implies", func(fr *frame, a []value) value { return notV(andV(a[0], notV(a[1]))) })
	ext(p+"IteInt", func(fr *frame, a []value) value {
		switch c := a[0].(type) {
		case bool:
			if c {
				return a[1]
			}
			return a[2]
		case symBool:
			return mkIntVal(types.Int, mkIte(c.t, intTerm(a[1]), intTerm(a[2])))
		}
		panic(engineError{"IteInt"})
	})
	ext(p+"B2I", func(fr *frame, a []value) value {
		switch c := a[0].(type) {
		case bool:
			if c {
				return 1
			}
			return 0
		case symBool:
			return mkIntVal(types.Int, mkIte(c.t, mkBV(1, 64), mkBV(0, 64)))
		}
		panic(engineError{"B2I"})
	})
	ext(p+"Trace", func(fr *frame, a []value) value {
		parts := []string{a[0].(string)}
		for _, v := range a[1].([]value) {
			parts = append(parts, describeValue(v))
		}
		P.tracef("%s", strings.Join(parts, " "))
		return nil
	})
	ext(p+"Tag", func(fr *frame, a []value) value {
		t := a[0].(string)
		for _, x := range P.tags {
			if x == t {
				return nil
			}
		}
		P.tags = append(P.tags, t)
		return nil
	})
	ext(p+"Hook", func(fr *frame, a []value) value {
		hookFns[a[0].(string)] = a[1].(iface).v
		return nil
	})
	ext(p+"Bound", func(fr *frame, a []value) value {
		if v, ok := P.bounds[a[0].(string)]; ok {
			return v
		}
		return int(asInt64(a[1]))
	})
	ext(p+"MapOrder", func(fr *frame, a []value) value { mapOrderMode = int(asInt64(a[0])); return nil })
	ext(p+"Preemptions", func(fr *frame, a []value) value { S.preempt = int(asInt64(a[0])); return nil })
	ext(p+"TickLimit", func(fr *frame, a []value) value { S.tickLimit = int(asInt64(a[0])); return nil })
	ext(p+"SchedDeterministic", func(fr *frame, a []value) value { S.deterministic = a[0].(bool); return nil })
	ext(p+"AtomicSwitch", func(fr *frame, a []value) value { S.atomicSwitch = a[0].(bool); return nil })
	ext(p+"RaceDetect", func(fr *frame, a []value) value { raceEnable(a[0].(bool)); return nil })
	ext(p+"HarnessLock", func(fr *frame, a []value) value { raceAcquire("harness-lock"); return nil })
	ext(p+"HarnessUnlock", func(fr *frame, a []value) value { raceRelease("harness-lock"); return nil })
	ext(p+"TimersNondet", func(fr *frame, a []value) value { S.timersNondet = a[0].(bool); return nil })
	ext(p+"TimersRacy", func(fr *frame, a []value) value { S.timersRacy = a[0].(bool); return nil })
	ext(p+"Concretize", func(fr *frame, a []value) value { return concretizeInt(a[0], "Concretize") })
	ext(p+"IsSymbolicRun", func(fr *frame, a []value) value { return true })
	ext(p+"Yield", func(fr *frame, a []value) value { S.switchPoint("yield"); return nil })
	// Quiesce: let every other goroutine run until all are finished or blocked;
	// returns the number of goroutines still blocked.
	ext(p+"Quiesce", func(fr *frame, a []value) value { return quiesceOthers() })
	// AdvanceTime(d): virtual-clock mode. Every timer whose due time lies within the
	// next d nanoseconds fires in due-time order (ties: armed first); after each
	// firing everything runs until all other goroutines are blocked.
	ext(p+"AdvanceTime", func(fr *frame, a []value) value {
		S.vclockOn = true
		target := S.now + asInt64(a[0])
		for n := 0; n < 100000; n++ {
			t := S.nextDue()
			if t == nil || t.due() > target {
				break
			}
			if d := t.due(); d > S.now {
				S.now = d
			}
			S.fire(t)
			quiesceOthers()
		}
		S.now = target
		return quiesceOthers()
	})
	// the SIMD kernels (assembly; decided by asmsmt, checks/c15.py): under gosmt only their
	// memory effect matters - they read the first cells of both vectors and WRITE their
	// results through the result pointers - so that the Go wrappers around them can be
	// run with race detection (a wrapper that hands out shared result slots is a data race)
	for _, pkg := range []string{"github.com/marekgalovic/anndb/simd/avx.", "github.com/marekgalovic/anndb/simd/sse."} {
		f32 := types.Typ[types.Float32]
		kernel := func(nres int) externalFn {
			return func(fr *frame, a []value) value {
				for _, in := range a[1:3] {
					if p, ok := in.(*value); ok && p != nil {
						raceMem(fr, f32, p, false)
					}
				}
				for _, out := range a[3 : 3+nres] {
					p, ok := out.(*value)
					if !ok || p == nil {
						panic(engineError{"SIMD kernel stub: result pointer is not a cell"})
					}
					raceMem(fr, f32, p, true)
					// a value derived from the first lane of a, so that different callers expect different results
					v := value(float32(4))
					if ap, ok := a[1].(*value); ok && ap != nil {
						if f, isF := (*ap).(float32); isF {
							v = f*f + 1
						}
					}
					*p = v
				}
				S.switchPoint("simd-kernel")
				return nil
			}
		}
		ext(pkg+"_euclidean_distance_squared", kernel(1))
		ext(pkg+"_manhattan_distance", kernel(1))
		ext(pkg+"_cosine_similarity_dot_norm", kernel(2))
	}
	// RandBudget(k): only the first k math/rand draws of a path are path decisions; the rest are
	// fixed (large member lists: the draws that matter are few, the permutation is long)
	ext(p+"RandBudget", func(fr *frame, a []value) value { randBudget = int(asInt64(a[0])); randDet = 0; return nil })
	// processes: goroutines started while the current goroutine carries tag n inherit it;
	// KillProcess(n) stops all of them for good (a crashed process)
	ext(p+"SetProcess", func(fr *frame, a []value) value { S.cur.proc = int(asInt64(a[0])); return nil })
	ext(p+"KillProcess", func(fr *frame, a []value) value { S.killProcess(int(asInt64(a[0]))); return nil })
	ext(p+"BlockedDesc", func(fr *frame, a []value) value { return S.describeBlocked() })
	ext(p+"FireTimer", func(fr *frame, a []value) value { return S.fireTimer() })
}

// quiesceOthers lets every other goroutine run until all are finished or
// blocked; returns the number of goroutines still blocked.
var randBudget, randDet = -1, 0

func quiesceOthers() int {
	self := S.cur
	for {
		var other *thread
		for _, t := range S.threads {
			if t != self && !t.done && !t.killed && (t.blocked == nil || t.blocked()) {
				other = t
				break
			}
		}
		if other == nil {
			break
		}
		en := S.enabled()
		var others []*thread
		for _, t := range en {
			if t != self {
				others = append(others, t)
			}
		}
		pick := others[0]
		if len(others) > 1 {
			pick = others[P.decide(len(others), "sched:quiesce")]
		}
		S.transfer(pick)
	}
	n := 0
	for _, t := range S.threads {
		if t != self && !t.done && !t.killed {
			n++
		}
	}
	if n > 0 {
		P.tracef("quiesce: blocked: %s", S.describeBlocked())
	}
	return n
}

// ------------------------------------------------------------------ sync

func registerSync() {
	ext("(*sync.Mutex).Lock", func(fr *frame, a []value) value { mutexLock(a[0].(*value)); return nil })
	ext("(*sync.Mutex).Unlock", func(fr *frame, a []value) value { mutexUnlock(a[0].(*value)); return nil })
	ext("(*sync.Mutex).TryLock", func(fr *frame, a []value) value { return mutexTryLock(a[0].(*value)) })
	ext("(*sync.RWMutex).Lock", func(fr *frame, a []value) value { mutexLock(a[0].(*value)); return nil })
	ext("(*sync.RWMutex).Unlock", func(fr *frame, a []value) value { mutexUnlock(a[0].(*value)); return nil })
	ext("(*sync.RWMutex).RLock", func(fr *frame, a []value) value { mutexRLock(a[0].(*value)); return nil })
	ext("(*sync.RWMutex).RUnlock", func(fr *frame, a []value) value { mutexRUnlock(a[0].(*value)); return nil })
	ext("(*sync.WaitGroup).Add", func(fr *frame, a []value) value {
		w := wgOf(a[0].(*value))
		raceRelease(w)
		w.n += asInt64(a[1])
		if w.n < 0 {
			panic(targetRuntimeError{"sync: negative WaitGroup counter"})
		}
		return nil
	})
	ext("(*sync.WaitGroup).Done", func(fr *frame, a []value) value {
		w := wgOf(a[0].(*value))
		raceRelease(w)
		w.n--
		if w.n < 0 {
			panic(targetRuntimeError{"sync: negative WaitGroup counter"})
		}
		return nil
	})
	ext("(*sync.WaitGroup).Wait", func(fr *frame, a []value) value {
		w := wgOf(a[0].(*value))
		S.switchPoint("wgwait")
		S.waitUntil(func() bool { return w.n == 0 }, "WaitGroup.Wait")
		raceAcquire(w)
		return nil
	})
	ext("(*sync.Once).Do", func(fr *frame, a []value) value {
		p := a[0].(*value)
		if _, done := syncStates[p]; done {
			raceAcquire(p)
			return nil
		}
		syncStates[p] = true
		call(fr.i, fr, 0, a[1], nil)
		raceRelease(p)
		return nil
	})
	// sync.Map as an ordered map guarded by nothing (the baton serialises)
	smap := func(p *value) *omap {
		raceAcqRel(p)
		if st, ok := syncStates[p]; ok {
			return st.(*omap)
		}
		m := &omap{keyType: types.NewInterfaceType(nil, nil)}
		syncStates[p] = m
		return m
	}
	ext("(*sync.Map).Load", func(fr *frame, a []value) value {
		v, ok := smap(a[0].(*value)).lookup(a[1])
		if !ok {
			return tuple{iface{}, false}
		}
		return tuple{v, true}
	})
	ext("(*sync.Map).Store", func(fr *frame, a []value) value { smap(a[0].(*value)).insert(a[1], a[2]); return nil })
	ext("(*sync.Map).Delete", func(fr *frame, a []value) value { smap(a[0].(*value)).delete(a[1]); return nil })
	ext("(*sync.Map).LoadOrStore", func(fr *frame, a []value) value {
		m := smap(a[0].(*value))
		if v, ok := m.lookup(a[1]); ok {
			return tuple{v, true}
		}
		m.insert(a[1], a[2])
		return tuple{a[2], false}
	})
}

// ------------------------------------------------------------------ atomic

func derefCell(p value) *value {
	pv := p.(*value)
	if pv == nil {
		panic(targetRuntimeError{"invalid memory address or nil pointer dereference"})
	}
	return pv
}

// atomicField returns the cell of the value field of an atomic.Int32-like struct.
func atomicField(p value) *value {
	pv := derefCell(p)
	st := (*pv).(structure)
	return &st[len(st)-1]
}

func registerAtomic() {
	// with verifrt.AtomicSwitch(true) every atomic operation is a scheduling point;
	// with verifrt.RaceDetect(true) it is an acquire+release on its cell and an
	// atomic access for the mixed atomic/plain check
	wrap := func(name string, write bool, cellOf func(value) *value, f externalFn) {
		ext(name, func(fr *frame, a []value) value {
			if S.atomicSwitch {
				S.switchPoint("atomic")
			}
			if R != nil {
				c := cellOf(a[0])
				raceAcquire(c)
				raceAccessCell(c, write, true, raceWhere(fr), "a variable accessed with sync/atomic")
				raceRelease(c)
			}
			return f(fr, a)
		})
	}
	for _, tn := range []string{"Int32", "Int64", "Uint32", "Uint64", "Uintptr", "Pointer"} {
		tn := tn
		ext := func(name string, f externalFn) {
			wrap(name, !strings.HasPrefix(name, "sync/atomic.Load"), derefCell, f)
		}
		ext("sync/atomic.Load"+tn, func(fr *frame, a []value) value { return *derefCell(a[0]) })
		ext("sync/atomic.Store"+tn, func(fr *frame, a []value) value { *derefCell(a[0]) = a[1]; return nil })
		ext("sync/atomic.Swap"+tn, func(fr *frame, a []value) value {
			c := derefCell(a[0])
			old := *c
			*c = a[1]
			return old
		})
		ext("sync/atomic.CompareAndSwap"+tn, func(fr *frame, a []value) value {
			c := derefCell(a[0])
			var eq bool
			if tn == "Pointer" {
				eq = (*c).(*value) == a[1].(*value)
			} else {
				eq = truth(equalsV(nil, *c, a[1]), "cas")
			}
			if eq {
				*c = a[2]
				return true
			}
			return false
		})
		if tn != "Pointer" {
			ext("sync/atomic.Add"+tn, func(fr *frame, a []value) value {
				c := derefCell(a[0])
				*c = binop(tokenADD, nil, *c, a[1])
				return *c
			})
		}
	}
	for _, tn := range []string{"Int32", "Int64", "Uint32", "Uint64", "Uintptr", "Bool"} {
		tn := tn
		pre := "(*sync/atomic." + tn + ")."
		ext := func(name string, f externalFn) {
			wrap(name, !strings.HasSuffix(name, ".Load"), atomicField, f)
		}
		ext(pre+"Load", func(fr *frame, a []value) value { return *atomicField(a[0]) })
		ext(pre+"Store", func(fr *frame, a []value) value { *atomicField(a[0]) = a[1]; return nil })
		ext(pre+"Swap", func(fr *frame, a []value) value {
			c := atomicField(a[0])
			old := *c
			*c = a[1]
			return old
		})
		ext(pre+"CompareAndSwap", func(fr *frame, a []value) value {
			c := atomicField(a[0])
			if truth(equalsV(nil, *c, a[1]), "cas") {
				*c = a[2]
				return true
			}
			return false
		})
		ext(pre+"Add", func(fr *frame, a []value) value {
			c := atomicField(a[0])
			*c = binop(tokenADD, nil, *c, a[1])
			return *c
		})
	}
}

// ------------------------------------------------------------------ misc

var fbitsVars map[int]*Term    // float term id -> bits var
var fbitsBack map[string]symFloat // bits var name -> float

func floatBits(x value, w int) value {
	switch x := x.(type) {
	case float32:
		return math.Float32bits(x)
	case float64:
		if w == 32 {
			return math.Float32bits(float32(x))
		}
		return math.Float64bits(x)
	case symFloat:
		k := types.Uint32
		if w == 64 {
			k = types.Uint64
		}
		if v, ok := fbitsVars[x.t.id]; ok {
			return symInt{k, v}
		}
		v := mkVar(freshName("fbits", ""), bvSort(w))
		// injectivity w.r.t. previously introduced bit variables
		for name, f := range fbitsBack {
			ov := mkVar(name, bvSort(w))
			if ov.sort.w != w {
				continue
			}
			P.assertPC(mkEq(mkEq(f.t, x.t), mkEq(ov, v)))
		}
		fbitsVars[x.t.id] = v
		fbitsBack[v.name] = x
		return symInt{k, v}
	}
	panic(engineError{fmt.Sprintf("floatBits %T", x)})
}

func floatFromBits(x value, w int) value {
	switch x := x.(type) {
	case uint32:
		return math.Float32frombits(x)
	case uint64:
		return math.Float64frombits(x)
	case symInt:
		if x.t.op == "var" {
			if f, ok := fbitsBack[x.t.name]; ok {
				return f
			}
		}
		// bits that are not (provably) the image of one symbolic float: the result is
		// an unknown float. Modelled as a fresh opaque value per distinct bit term
		// (finite, non-NaN); anything asserted about it can fail, and such a
		// counterexample is confirmed or refuted by the native replay.
		if f, ok := fbitsBack["#"+x.t.key]; ok {
			return f
		}
		k := types.Float32
		if w == 64 {
			k = types.Float64
		}
		f := symFloat{k: k, t: mkVar(freshName("ffrom", ""), realSort)}
		fbitsBack["#"+x.t.key] = f
		return f
	}
	panic(engineError{fmt.Sprintf("floatFromBits %T", x)})
}

func f64(x value) (float64, bool) {
	switch x := x.(type) {
	case float64:
		return x, true
	case float32:
		return float64(x), true
	}
	return 0, false
}

var uuidSeq int

func registerMisc() {
	ext("math.Float32bits", func(fr *frame, a []value) value { return floatBits(a[0], 32) })
	ext("math.Float64bits", func(fr *frame, a []value) value { return floatBits(a[0], 64) })
	ext("math.Float32frombits", func(fr *frame, a []value) value { return floatFromBits(a[0], 32) })
	ext("math.Float64frombits", func(fr *frame, a []value) value { return floatFromBits(a[0], 64) })
	ext("math.Abs", func(fr *frame, a []value) value {
		if s, ok := a[0].(symFloat); ok {
			return symFloatAbs(s)
		}
		return math.Abs(a[0].(float64))
	})
	un := func(name string, f func(float64) float64) {
		ext("math."+name, func(fr *frame, a []value) value {
			x, ok := f64(a[0])
			if !ok {
				panic(engineError{"math." + name + " of a symbolic float"})
			}
			return f(x)
		})
	}
	un("Sqrt", math.Sqrt)
	un("Exp", math.Exp)
	un("Log", math.Log)
	un("Floor", math.Floor)
	un("Ceil", math.Ceil)
	un("Trunc", math.Trunc)
	ext("math.Pow", func(fr *frame, a []value) value { return math.Pow(a[0].(float64), a[1].(float64)) })
	ext("math.Inf", func(fr *frame, a []value) value { return math.Inf(int(asInt64(a[0]))) })
	ext("math.NaN", func(fr *frame, a []value) value { return math.NaN() })
	ext("math.IsNaN", func(fr *frame, a []value) value {
		if _, ok := a[0].(symFloat); ok {
			return false
		}
		return math.IsNaN(a[0].(float64))
	})
	ext("math.IsInf", func(fr *frame, a []value) value {
		if _, ok := a[0].(symFloat); ok {
			return false
		}
		return math.IsInf(a[0].(float64), int(asInt64(a[1])))
	})

	// math/bits.Len*: table lookups in the library; symbolic operands get an ite chain
	bitsLen := func(w int) externalFn {
		return func(fr *frame, a []value) value {
			x := a[0]
			if sx, ok := x.(symInt); ok {
				res := mkBV(0, 64)
				// narrow the chain when the path condition bounds the operand
				top := w
				for _, k := range []int{8, 16, 32} {
					if k < w && P.solver.Check(mkBVCmp("bvule", mkBV(uint64(1)<<uint(k), w), sx.t)) == vUnsat {
						top = k
						break
					}
				}
				for i := 0; i < top; i++ {
					// if x >= 2^i then len >= i+1
					res = mkIte(mkBVCmp("bvule", mkBV(uint64(1)<<uint(i), w), sx.t), mkBV(uint64(i+1), 64), res)
				}
				return mkIntVal(types.Int, res)
			}
			v := concreteBits(x)
			n := 0
			for v != 0 {
				n++
				v >>= 1
			}
			return n
		}
	}
	ext("math/bits.Len64", bitsLen(64))
	ext("math/bits.Len32", bitsLen(32))
	ext("math/bits.Len", bitsLen(64))
	ext("math/bits.Len8", bitsLen(8))
	ext("math/bits.Len16", bitsLen(16))

	// os / runtime
	ext("os.Exit", func(fr *frame, a []value) value { panic(exitPanic(asInt64(a[0]))) })
	ext("os.Getenv", func(fr *frame, a []value) value { return os.Getenv(a[0].(string)) })
	ext("os.Getuid", func(fr *frame, a []value) value { return 0 })
	ext("os.Getgid", func(fr *frame, a []value) value { return 0 })
	ext("os.Getpid", func(fr *frame, a []value) value { return 1 })
	ext("os.Hostname", func(fr *frame, a []value) value { return tuple{"host", iface{}} })
	ext("runtime.Gosched", func(fr *frame, a []value) value { S.switchPoint("gosched"); return nil })
	ext("runtime.Callers", func(fr *frame, a []value) value { return 0 })
	ext("runtime.Caller", func(fr *frame, a []value) value { return tuple{uintptr(0), "", 0, false} })
	ext("runtime.GC", func(fr *frame, a []value) value { return nil })
	ext("runtime.KeepAlive", func(fr *frame, a []value) value { return nil })
	ext("runtime.SetFinalizer", func(fr *frame, a []value) value { return nil })
	ext("runtime.NumCPU", func(fr *frame, a []value) value { return 4 })
	ext("runtime.GOMAXPROCS", func(fr *frame, a []value) value { return 4 })

	// bytes / strings helpers implemented in assembly
	ext("internal/bytealg.Compare", extBytesCompare)
	ext("bytes.Compare", extBytesCompare)
	ext("bytes.Equal", func(fr *frame, a []value) value {
		x, y := a[0].([]value), a[1].([]value)
		if len(x) != len(y) {
			return false
		}
		var acc value = true
		for i := range x {
			acc = andV(acc, equalsV(nil, x[i], y[i]))
			if acc == false {
				return false
			}
		}
		return acc
	})
	ext("internal/bytealg.IndexByte", func(fr *frame, a []value) value {
		x := a[0].([]value)
		for i := range x {
			if truth(equalsV(nil, x[i], a[1]), "indexbyte") {
				return i
			}
		}
		return -1
	})
	ext("bytes.IndexByte", externals["internal/bytealg.IndexByte"])
	ext("internal/bytealg.IndexByteString", func(fr *frame, a []value) value {
		return strings.IndexByte(a[0].(string), byte(asInt64(a[1])))
	})
	ext("strings.IndexByte", externals["internal/bytealg.IndexByteString"])
	ext("strings.Repeat", func(fr *frame, a []value) value {
		n := asInt64(a[1])
		if n < 0 {
			panic(targetPanic{iface{types.Typ[types.String], "strings: negative Repeat count"}})
		}
		return strings.Repeat(a[0].(string), int(n))
	})
	ext("strings.Index", func(fr *frame, a []value) value { return strings.Index(a[0].(string), a[1].(string)) })
	ext("strings.Count", func(fr *frame, a []value) value { return strings.Count(a[0].(string), a[1].(string)) })
	ext("strings.ToLower", func(fr *frame, a []value) value { return strings.ToLower(a[0].(string)) })
	ext("strings.EqualFold", func(fr *frame, a []value) value { return strings.EqualFold(a[0].(string), a[1].(string)) })
	ext("strconv.Itoa", func(fr *frame, a []value) value { return strconv.Itoa(int(asInt64(a[0]))) })
	ext("strconv.Atoi", func(fr *frame, a []value) value {
		i, e := strconv.Atoi(a[0].(string))
		if e != nil {
			return tuple{i, mkErrorValue(fr.i, e.Error())}
		}
		return tuple{i, iface{}}
	})

	// fmt: formatting is not the subject anywhere; produce a readable string
	sprintf := func(fr *frame, a []value) value {
		var sb strings.Builder
		sb.WriteString(a[0].(string))
		for _, v := range a[1].([]value) {
			sb.WriteString(" ")
			sb.WriteString(describeValue(v))
		}
		return sb.String()
	}
	ext("fmt.Sprintf", sprintf)
	ext("fmt.Sprint", func(fr *frame, a []value) value {
		var parts []string
		for _, v := range a[0].([]value) {
			parts = append(parts, describeValue(v))
		}
		return strings.Join(parts, " ")
	})
	ext("fmt.Sprintln", externals["fmt.Sprint"])
	ext("fmt.Errorf", func(fr *frame, a []value) value { return mkErrorValue(fr.i, sprintf(fr, a).(string)) })
	noop := func(fr *frame, a []value) value { return nil }
	ext("fmt.Println", func(fr *frame, a []value) value { return tuple{0, iface{}} })
	ext("fmt.Printf", func(fr *frame, a []value) value { return tuple{0, iface{}} })
	ext("fmt.Print", func(fr *frame, a []value) value { return tuple{0, iface{}} })
	ext("fmt.Fprintf", func(fr *frame, a []value) value { return tuple{0, iface{}} })
	ext("fmt.Fprintln", func(fr *frame, a []value) value { return tuple{0, iface{}} })
	ext("log.Printf", noop)
	ext("log.Println", noop)
	ext("log.Fatal", func(fr *frame, a []value) value { panic(pathEnd{"fatal", "log.Fatal"}) })
	ext("log.Fatalf", func(fr *frame, a []value) value { panic(pathEnd{"fatal", "log.Fatalf"}) })

	// randomness
	ext("math/rand.Intn", func(fr *frame, a []value) value {
		n := asInt64(a[0])
		if n <= 0 {
			panic(targetPanic{iface{types.Typ[types.String], "invalid argument to Intn"}})
		}
		c := 0
		if P.concrete {
			s := nextReplay("rand.Intn")
			cc, _ := strconv.Atoi(s)
			c = cc % int(n)
		} else if randBudget == 0 {
			// verifrt.RandBudget exhausted: the remaining draws of this path are a fixed
			// sequence that runs through all values (rejection sampling still terminates)
			randDet++
			c = randDet % int(n)
		} else {
			if randBudget > 0 {
				randBudget--
			}
			c = P.decide(int(n), "rand.Intn")
		}
		P.inputs = append(P.inputs, InputRec{Fn: "rand.Intn", Name: fmt.Sprint(n), Kind: "enum", Conc: fmt.Sprint(c)})
		return c
	})
	ext("math/rand.Shuffle", func(fr *frame, a []value) value {
		n := int(asInt64(a[0]))
		if n < 0 {
			panic(targetPanic{iface{types.Typ[types.String], "invalid argument to Shuffle"}})
		}
		for i := n - 1; i > 0; i-- {
			j := 0
			if P.concrete {
				s := nextReplay("rand.Shuffle")
				jj, _ := strconv.Atoi(s)
				j = jj % (i + 1)
			} else if randBudget == 0 {
				j = i // verifrt.RandBudget exhausted: the rest of the permutation is the identity
			} else {
				if randBudget > 0 {
					randBudget--
				}
				j = P.decide(i+1, "rand.Shuffle")
			}
			P.inputs = append(P.inputs, InputRec{Fn: "rand.Shuffle", Name: fmt.Sprint(i), Kind: "enum", Conc: fmt.Sprint(j)})
			call(fr.i, fr, 0, a[1], []value{i, j})
		}
		return nil
	})
	ext("math/rand.Float32", func(fr *frame, a []value) value { return float32(0.5) })
	ext("math/rand.Float64", func(fr *frame, a []value) value { return 0.5 })
	ext("math/rand.Seed", noop)
	ext("(*math/rand.rngSource).Seed", noop)

	// etcd raft node construction: the harness supplies the node (etcdRaft.Node is an interface)
	raftStart := func(kind string) externalFn {
		return func(fr *frame, a []value) value {
			f, ok := hookFns["raftnode"]
			if !ok {
				// no harness factory: the real etcd/raft node is interpreted
				P.tracef("raft.%s (real etcd/raft)", kind)
				return useRealBody{}
			}
			P.tracef("raft.%s", kind)
			np := 0
			if len(a) > 1 {
				if ps, ok := a[1].([]value); ok {
					np = len(ps)
				}
			}
			if pf, ok := hookFns["raftpeers"]; ok {
				// the Context of every bootstrap peer, as the caller passed it
				ctxs := []value{}
				if np > 0 {
					for _, p := range a[1].([]value) {
						ctxs = append(ctxs, p.(structure)[1])
					}
				}
				call(fr.i, fr, 0, pf, []value{ctxs})
			}
			return call(fr.i, fr, 0, f, []value{kind, a[0], np})
		}
	}
	// etcd/raft's randomized election timeout: a harness hook supplies the draw
	// (deterministic or a path decision); without a hook the middle of the range
	ext("(*github.com/coreos/etcd/raft.lockedRand).Intn", func(fr *frame, a []value) value {
		n := int(asInt64(a[1]))
		if f, ok := hookFns["raft-rand"]; ok {
			return int(asInt64(call(fr.i, fr, 0, f, []value{n})))
		}
		return n / 2
	})
	ext("github.com/coreos/etcd/raft.StartNode", raftStart("StartNode"))
	// strings.Builder's self-copy check goes through abi.NoEscape (unsafe); values are never copied mid-use here
	ext("(*strings.Builder).copyCheck", noop)
	// sort.Slice / sort.SliceStable go through reflectlite.Swapper; here: an in-place
	// insertion sort (stable) that calls the interpreted less function on indexes
	sortSlice := func(fr *frame, a []value) value {
		var s []value
		switch x := a[0].(type) {
		case iface:
			s, _ = x.v.([]value)
		case []value:
			s = x
		}
		for i := 1; i < len(s); i++ {
			for j := i; j > 0; j-- {
				if !truth(call(fr.i, fr, 0, a[1], []value{j, j - 1}), "sort.Slice less") {
					break
				}
				s[j], s[j-1] = s[j-1], s[j]
			}
		}
		return nil
	}
	ext("sort.Slice", sortSlice)
	ext("sort.SliceStable", sortSlice)
	ext("strings.Join", func(fr *frame, a []value) value {
		var parts []string
		for _, e := range a[0].([]value) {
			parts = append(parts, e.(string))
		}
		return strings.Join(parts, a[1].(string))
	})
	ext("github.com/coreos/etcd/raft.RestartNode", raftStart("RestartNode"))

	// gRPC: no network in the model; dialling fails (clients that harnesses need are
	// harness implementations of the generated client interfaces)
	// With a verifrt.Hook("grpc-dial", func(target string) bool) the harness
	// decides reachability; calls on the returned connection are routed to
	// the hooks "grpc-stream" / "grpc-invoke" (in-memory transport).
	grpcDial := func(argIdx int) externalFn {
		return func(fr *frame, a []value) value {
			f, ok := hookFns["grpc-dial"]
			if !ok {
				return tuple{(*value)(nil), mkErrorValue(fr.i, "grpc: dial unavailable in the model")}
			}
			target, _ := a[argIdx].(string)
			if !truth(call(fr.i, fr, 0, f, []value{target}), "grpc-dial hook result") {
				return tuple{(*value)(nil), mkErrorValue(fr.i, "grpc: target unreachable in the model")}
			}
			var cell value = zero(mustDeref(fr.fn.Signature.Results().At(0).Type()))
			p := &cell
			grpcConnTarget[p] = target
			return tuple{p, iface{}}
		}
	}
	ext("google.golang.org/grpc.Dial", grpcDial(0))
	ext("google.golang.org/grpc.DialContext", grpcDial(1))
	ext("(*google.golang.org/grpc.ClientConn).Close", func(fr *frame, a []value) value { return iface{} })
	ext("(*google.golang.org/grpc.ClientConn).NewStream", func(fr *frame, a []value) value {
		f, ok := hookFns["grpc-stream"]
		if !ok {
			panic(engineError{"grpc ClientConn.NewStream reached without a verifrt.Hook(\"grpc-stream\", ...)"})
		}
		p, _ := a[0].(*value)
		return call(fr.i, fr, 0, f, []value{grpcConnTarget[p], a[3]})
	})
	ext("(*google.golang.org/grpc.ClientConn).Invoke", func(fr *frame, a []value) value {
		f, ok := hookFns["grpc-invoke"]
		if !ok {
			panic(engineError{"grpc ClientConn.Invoke reached without a verifrt.Hook(\"grpc-invoke\", ...)"})
		}
		p, _ := a[0].(*value)
		return call(fr.i, fr, 0, f, []value{grpcConnTarget[p], a[2], a[3], a[4]})
	})

	// server start-up: no sockets, no gRPC server in the model
	ext("net.Listen", func(fr *frame, a []value) value { return tuple{iface{}, iface{}} })
	ext("google.golang.org/grpc.NewServer", func(fr *frame, a []value) value {
		var cell value = zero(mustDeref(fr.fn.Signature.Results().At(0).Type()))
		return &cell
	})
	ext("(*google.golang.org/grpc.Server).RegisterService", func(fr *frame, a []value) value { return nil })
	ext("(*google.golang.org/grpc.Server).Serve", func(fr *frame, a []value) value { return iface{} })
	ext("(*google.golang.org/grpc.Server).GracefulStop", func(fr *frame, a []value) value { return nil })
	ext("net.JoinHostPort", func(fr *frame, a []value) value { return a[0].(string) + ":" + a[1].(string) })
	ext("path.Join", func(fr *frame, a []value) value {
		parts := []string{}
		for _, p := range a[0].([]value) {
			parts = append(parts, p.(string))
		}
		return strings.Join(parts, "/")
	})

	// uuid.NewV4: fresh, distinct from everything else on the path
	newV4 := func(fr *frame, a []value) value {
		uuidSeq++
		arr := make(array, 16)
		for i := range arr {
			arr[i] = uint8(0)
		}
		arr[0] = uint8(0xEE)
		arr[6] = uint8(0x40)
		arr[8] = uint8(0x80)
		arr[14] = uint8(uuidSeq >> 8)
		arr[15] = uint8(uuidSeq)
		return arr
	}
	ext("github.com/satori/go.uuid.NewV4", newV4)

	// time
	ext("time.Now", func(fr *frame, a []value) value { return zeroResult(fr.fn) })
	ext("time.Since", func(fr *frame, a []value) value { return int64(0) })
	ext("time.Sleep", func(fr *frame, a []value) value { S.switchPoint("sleep"); return nil })
	ext("(time.Time).UTC", func(fr *frame, a []value) value { return a[0] })
	ext("(time.Time).UnixNano", func(fr *frame, a []value) value { return int64(1) })
	ext("(time.Duration).String", func(fr *frame, a []value) value { return "dur" })
}

const tokenADD = token.ADD

func extBytesCompare(fr *frame, a []value) value {
	x, y := a[0].([]value), a[1].([]value)
	n := len(x)
	if len(y) < n {
		n = len(y)
	}
	for i := 0; i < n; i++ {
		if !truth(equalsV(nil, x[i], y[i]), "bytescmp") {
			if truth(binop(tokenLSS, nil, x[i], y[i]), "bytescmp") {
				return -1
			}
			return 1
		}
	}
	switch {
	case len(x) < len(y):
		return -1
	case len(x) > len(y):
		return 1
	}
	return 0
}

const tokenLSS = token.LSS

// mkErrorValue builds an error value of dynamic type *errors.errorString.
func mkErrorValue(i *interpreter, msg string) value {
	pkg := i.prog.ImportedPackage("errors")
	if pkg == nil {
		panic(engineError{"errors package not loaded"})
	}
	t := pkg.Type("errorString").Type()
	var cell value = structure{msg}
	return iface{t: types.NewPointer(t), v: &cell}
}

var _ = sort.Strings

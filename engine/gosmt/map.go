package main

// Maps are insertion-ordered association lists. Key comparison may be
// symbolic (forks on equality). Iteration order is a nondeterministic
// permutation chosen by a path decision (see mapOrderMode).

import (
	"go/types"
)

type omap struct {
	keyType types.Type
	keys    []value
	vals    []value
	// index for maps whose keys are all concrete strings (metadata maps with tens of
	// thousands of entries would otherwise cost a linear scan per access)
	sidx   map[string]int
	nonStr bool
}

func (m *omap) strIndex() map[string]int {
	if m.nonStr {
		return nil
	}
	if m.sidx == nil || len(m.sidx) != len(m.keys) {
		m.sidx = make(map[string]int, len(m.keys))
		for i, k := range m.keys {
			ks, ok := k.(string)
			if !ok {
				m.nonStr = true
				m.sidx = nil
				return nil
			}
			m.sidx[ks] = i
		}
	}
	return m.sidx
}

func makeMap(kt types.Type, reserve int64) value {
	return &omap{keyType: kt}
}

func (m *omap) find(k value) int {
	if m == nil {
		return -1
	}
	if ks, ok := k.(string); ok && len(m.keys) > 8 {
		if idx := m.strIndex(); idx != nil {
			if i, ok := idx[ks]; ok {
				return i
			}
			return -1
		}
	}
	for i := range m.keys {
		if truth(equalsV(m.keyType, m.keys[i], k), "mapkey") {
			return i
		}
	}
	return -1
}

func (m *omap) lookup(k value) (value, bool) {
	i := m.find(k)
	if i < 0 {
		return nil, false
	}
	return m.vals[i], true
}

func (m *omap) insert(k, v value) {
	if m == nil {
		panic(targetRuntimeError{"assignment to entry in nil map"})
	}
	i := m.find(k)
	if i >= 0 {
		m.vals[i] = v
		return
	}
	m.keys = append(m.keys, k)
	m.vals = append(m.vals, v)
	if ks, ok := k.(string); ok {
		if m.sidx != nil && len(m.sidx) == len(m.keys)-1 {
			m.sidx[ks] = len(m.keys) - 1
		}
	} else {
		m.nonStr = true
		m.sidx = nil
	}
}

func (m *omap) delete(k value) {
	if m == nil {
		return
	}
	i := m.find(k)
	if i < 0 {
		return
	}
	m.keys = append(m.keys[:i:i], m.keys[i+1:]...)
	m.vals = append(m.vals[:i:i], m.vals[i+1:]...)
	m.sidx = nil // positions shifted: rebuilt on the next indexed access
}

func (m *omap) len() int {
	if m == nil {
		return 0
	}
	return len(m.keys)
}

// Map iteration order modes.
const (
	mapOrderInsertion = 0 // insertion order only (a bound: other orders not explored)
	mapOrderRotRev    = 1 // all rotations and their reversals (s<=3: all permutations)
	mapOrderAll       = 2 // all permutations up to size 4, rotations+reversals above
)

var mapOrderMode = mapOrderInsertion

type omapIter struct {
	m     *omap
	order []value // snapshot of keys in chosen order
	pos   int
}

func permutations(n int) [][]int {
	if n == 0 {
		return [][]int{{}}
	}
	var out [][]int
	var rec func(cur []int, used []bool)
	rec = func(cur []int, used []bool) {
		if len(cur) == n {
			out = append(out, append([]int(nil), cur...))
			return
		}
		for i := 0; i < n; i++ {
			if !used[i] {
				used[i] = true
				rec(append(cur, i), used)
				used[i] = false
			}
		}
	}
	rec(nil, make([]bool, n))
	return out
}

func rotRev(n int) [][]int {
	var out [][]int
	seen := map[string]bool{}
	for r := 0; r < n; r++ {
		for rev := 0; rev < 2; rev++ {
			p := make([]int, n)
			for i := 0; i < n; i++ {
				if rev == 0 {
					p[i] = (r + i) % n
				} else {
					p[i] = ((r-i)%n + n) % n
				}
			}
			k := ""
			for _, x := range p {
				k += string(rune('a' + x))
			}
			if !seen[k] {
				seen[k] = true
				out = append(out, p)
			}
		}
	}
	return out
}

func newOmapIter(m *omap) *omapIter {
	it := &omapIter{m: m}
	n := m.len()
	if n == 0 {
		return it
	}
	var perm []int
	switch {
	case n == 1 || mapOrderMode == mapOrderInsertion:
		perm = nil
	case mapOrderMode == mapOrderAll && n <= 4:
		ps := permutations(n)
		perm = ps[P.decide(len(ps), "maporder")]
	default:
		ps := rotRev(n)
		perm = ps[P.decide(len(ps), "maporder")]
	}
	it.order = make([]value, n)
	for i := 0; i < n; i++ {
		j := i
		if perm != nil {
			j = perm[i]
		}
		it.order[i] = m.keys[j]
	}
	return it
}

func (it *omapIter) next() tuple {
	for it.pos < len(it.order) {
		k := it.order[it.pos]
		it.pos++
		// entries deleted during iteration are not produced. Keys in the
		// snapshot are identical objects, so compare concretely where
		// possible.
		if ks, ok := k.(string); ok && len(it.m.keys) > 8 {
			if idx := it.m.strIndex(); idx != nil {
				if i, ok := idx[ks]; ok {
					return tuple{true, k, it.m.vals[i]}
				}
				continue
			}
		}
		for i := range it.m.keys {
			if sameKey(it.m.keyType, it.m.keys[i], k) {
				return tuple{true, k, it.m.vals[i]}
			}
		}
	}
	return tuple{false, nil, nil}
}

// sameKey: identity of snapshot key with a current key (no forking: a key
// that is syntactically the same value).
func sameKey(t types.Type, a, b value) bool {
	e := equalsV(t, a, b)
	if bb, ok := e.(bool); ok {
		return bb
	}
	// symbolic equality that is not syntactically true: treat as the same only
	// if terms are identical (mkEq folds a==a to true), otherwise different.
	return false
}
